"""C11 - strings are length-counted byte sequences preserved through any mutation history.

Representation invariant of a string node (assumed at entry of the set operation, re-proved at every successful return):
    len >= 0 : the bytes live inline, inline capacity >= len + 1 (and always >= sizeof(void*))
    len <  0 : the bytes live in the separately allocated block pdata, capacity >= -len + 1
R1 sign convention: pdata is read / freed only where len < 0 holds; a store to pdata is followed by a negative len
R2 who-may-write: len and the storage union are written only by the constructor and the set operation
R3 the old separate block is freed exactly once when it is replaced or abandoned, never otherwise
R4 failure atomicity: a set that returns 0 has freed nothing and written nothing
R5 bounds and terminator: malloc(len + 1) / memcpy(len) / store at [len] stay inside the destination; the constructor
   allocates header + max(len, pointer size) + 1
R6 equality, copy and serialization pass the stored length (not strlen) to their byte consumers
"""
from ..ir import load_program
from ..cfg import cfg_of
from ..flow import Paths, dominating_conditions
from ..pathlin import Walker, Ptr, Contract
from ..lin import Lin, const, atom


def run(chk):
    prog = load_program("default")
    chk.variant(prog)
    m = prog.module("json_object.c")
    chk.require(m is not None, "json_object.c not in the build")
    r1(chk, prog, m)
    r2(chk, prog, m)
    r_set(chk, prog, m)
    r_ctor(chk, prog, m)
    r6(chk, prog, m)
    r7(chk, prog, m)
    r8_wrappers(chk, prog, m)
    chk.undecided_clauses += [
        "contents of the string after arbitrary set histories (byte-level model comparison is value-level)",
        "R5 treats the inline area's capacity symbolically (>= len + 1 and >= sizeof(void*)), as established by the constructor rule",
    ]


def _union_accesses(f, P):
    """(instr, kind) for accesses to the storage union: kind in pdata-load / pdata-store / idata-addr"""
    out = []
    for i in f.instrs():
        if i.op == "bitcast" and i.ops[0].kind == "reg":
            d = f.defs.get(i.ops[0].v)
            if d is not None and d.op == "getelementptr" and P.path(i.ops[0]).endswith("c_string"):
                kind = "pdata" if i.type == "i8**" else "idata"
                out.append((i, kind))
    return out


def _r1_paths(prog, f, P, load, obj):
    """path-sensitive: on every path reaching `load`, do the path's facts entail <obj>len <= -1 ?"""
    from ..frontend import AnalysisBroken
    res = {"n": 0, "bad": None, "unk": None}
    lenp = obj + "len"
    try:
        w = Walker(prog, f, view="signed")

        def on_instr(w, st, i):
            if i is not load:
                return
            res["n"] += 1
            lv = st.mem.get(lenp)
            if lv is None:
                lv = w.atom_for(st, lenp, "i64")
                st.mem[lenp] = lv
            if not isinstance(lv, Lin):
                res["unk"] = res["unk"] or "length field not a tracked integer on a path"
                return
            if not w.entails(st, lv + const(1)):
                res["bad"] = res["bad"] or "path guards %s" % (st.prov[-6:],)
        w.on_instr = on_instr
        w.run(lambda w, st: None)
    except AnalysisBroken as e:
        return "undecided", str(e)[:80]
    if res["bad"]:
        return "refuted", res["bad"]
    if res["unk"] or not res["n"]:
        return "undecided", res["unk"] or "the read is on no enumerated path"
    return "proven", "%d paths" % res["n"]


def r1(chk, prog, m):
    rid = "C11.R1"
    chk.rule(rid, "the separately allocated block (pdata) is read or freed only where len < 0 is known; the inline bytes are "
                  "addressed only where len >= 0 is known (or in the constructor)")
    n = 0
    for f in [g for g in m.functions.values() if not g.is_decl]:
        P = Paths(f, prog)
        cfg = cfg_of(f)
        for bc, kind in _union_accesses(f, P):
            for u in cfg.users(bc.res):
                if kind == "pdata" and u.op == "load":
                    n += 1
                    chk.touched(f)
                    obj = P.path(bc.ops[0]).rsplit("c_string", 1)[0]
                    conds = dominating_conditions(f, u.block)
                    ok = False
                    for c, tr in conds:
                        if getattr(c, "op", None) != "icmp":
                            continue
                        a, b = c.ops
                        pa = P.path(a) if a.kind == "reg" else ""
                        if pa == obj + "len" and b.kind == "int" and b.v == 0:
                            if (c.x["pred"] == "slt" and tr) or (c.x["pred"] == "sge" and not tr):
                                ok = True
                    sig = "read of %spdata" % obj
                    if ok:
                        chk.proven(rid, f.name, sig, u.locstr(), "dominated by len < 0")
                        continue
                    # no single dominating test: decide path by path (the knowledge may sit in a flag or in an earlier state)
                    verdict, why = _r1_paths(prog, f, P, u, obj)
                    if verdict == "proven":
                        chk.proven(rid, f.name, sig, u.locstr(), "len < 0 holds on every path that reaches the read (%s)" % why)
                    elif verdict == "refuted":
                        chk.refuted(rid, f.name, sig, u.locstr(),
                                    "the storage union is read as a pointer on a path where len < 0 is not established (%s): for an inline "
                                    "string the first bytes of the text would be used (or freed) as a pointer" % why, {"load": u.raw})
                    else:
                        chk.undecided(rid, f.name, sig, u.locstr(), "no dominating test that len < 0 and the path-by-path analysis could "
                                      "not follow the length field (%s)" % why)
    chk.floor(rid, n, 4, "reads of the separately allocated block")


def r2(chk, prog, m):
    rid = "C11.R2"
    chk.rule(rid, "the length field and the storage union of a string node are written only by the constructor and the set operation")
    allowed = {"_json_object_new_string", "_json_object_set_string_len"}
    n = 0
    for f in prog.all_functions():
        P = None
        for i in f.instrs():
            if i.op != "store":
                continue
            t = i.ops[1].type
            if P is None:
                P = Paths(f, prog)
            p = P.path(i.ops[1])
            is_len = p.endswith("->len") and _is_string_obj(f, i.ops[1])
            is_union = p.endswith("c_string") and _is_string_obj(f, i.ops[1])
            if not (is_len or is_union):
                continue
            n += 1
            chk.touched(f)
            sig = "store %s" % p
            if f.name in allowed:
                chk.proven(rid, f.name, sig, i.locstr(), "constructor / set operation")
            else:
                chk.refuted(rid, f.name, sig, i.locstr(), "%s writes a string node's %s outside the constructor and the set operation"
                            % (f.name, "length" if is_len else "storage"))
    chk.floor(rid, n, 4, "stores to string length / storage")


def _is_string_obj(f, addr):
    v = addr
    hops = 0
    while v.kind == "reg" and v.v in f.defs and hops < 6:
        d = f.defs[v.v]
        hops += 1
        if d.op == "getelementptr":
            return d.x["srcty"] == "%struct.json_object_string"
        if d.op == "bitcast":
            v = d.ops[0]
            continue
        return False
    return False


def r_set(chk, prog, m):
    chk.rule("C11.R3", "on every successful path of the set operation the old separately allocated block is freed exactly once when it is "
                       "replaced or abandoned, and not freed when it is kept")
    chk.rule("C11.R4", "a set that reports failure (returns 0) has freed nothing and written nothing: the previous contents are intact")
    chk.rule("C11.R5", "every write of the new contents stays inside the destination (new block of len + 1 bytes, kept block, or inline "
                       "area), including the terminator at [len]; the representation invariant holds again on success")
    f = m.functions.get("_json_object_set_string_len")
    chk.require(f is not None and not f.is_decl, "_json_object_set_string_len not found")
    chk.touched(f)
    jn, sn, ln = f.params[0][1], f.params[1][1], f.params[2][1]
    R = {"C11.R3": [0, []], "C11.R4": [0, []], "C11.R5": [0, []]}
    UND = {"C11.R3": [], "C11.R4": [], "C11.R5": []}
    LENP = jn + "->len"
    UNIP = jn + "->c_string"

    def helper_contract():
        def neg(w, st, args, call):
            cur = st.mem.get(LENP)
            if not isinstance(cur, Lin):
                return False
            st.facts.append(cur + const(1))          # len <= -1
            st._ret = st.mem.get(UNIP) if isinstance(st.mem.get(UNIP), Ptr) else Ptr("pdata0", const(0))
            return True

        def pos(w, st, args, call):
            cur = st.mem.get(LENP)
            if not isinstance(cur, Lin):
                return False
            st.facts.append(cur.scale(-1))           # len >= 0
            st._ret = Ptr("idata", const(0))
            return True
        return Contract("get_string_component_mutable", [(None, neg), (None, pos)])

    for entry_neg in (True, False):
        w = Walker(prog, f, view="signed", contracts={"get_string_component_mutable": helper_contract()}, buf_fields={"c_string": None})

        def init(w, st, entry_neg=entry_neg):
            l0 = w.atom_for(st, LENP, "i64")
            st.mem[LENP] = l0
            ci = w.atom_for(st, "cap(idata)", "i64")
            st.cap["idata"] = ci
            st.facts.append(const(8) - ci)                    # inline area >= sizeof(void*)
            st.mem[UNIP] = Ptr("pdata0", const(0))
            cp = w.atom_for(st, "cap(pdata0)", "i64")
            st.cap["pdata0"] = cp
            if entry_neg:
                st.facts += [l0 + const(1), l0.scale(-1) + const(1) - cp]      # len <= -1, cap(pdata) >= -len + 1
            else:
                st.facts += [l0.scale(-1), l0 + const(1) - ci]                 # len >= 0, cap(idata) >= len + 1
            w.atom_for(st, ln, "i64")

        def on_instr(w, st, i):
            if i.op == "call" and i.callee == "free":
                a = w.val(st, i.ops[0])
                st.events.append(("free", a, i))
            if i.op == "call" and i.callee and i.callee.startswith("llvm.memcpy"):
                dst, n = w.val(st, i.ops[0]), w.val(st, i.ops[2])
                _bound(w, st, dst, n, i, "memcpy")
            if i.op == "store":
                a = w.val(st, i.ops[1])
                if isinstance(a, Ptr):
                    _bound(w, st, a, const(1), i, "store")

        def _bound(w, st, dst, n, i, what):
            R["C11.R5"][0] += 1
            if isinstance(dst, tuple) and dst and dst[0] == "alloc":
                dst = Ptr("new", const(0))
                st.cap.setdefault("new", None)
            if not isinstance(dst, Ptr) or not isinstance(n, Lin):
                UND["C11.R5"].append((i, "%s destination not resolved" % what))
                return
            cap = st.cap.get(dst.base)
            if dst.base.startswith("malloc#") or dst.base == "new":
                cap = st.cap.get(dst.base)
            if cap is None:
                UND["C11.R5"].append((i, "%s into a block of unknown capacity (%s)" % (what, dst.base)))
                return
            if not (w.entails(st, dst.off.scale(-1)) and w.entails(st, dst.off + n - cap)):
                R["C11.R5"][1].append((i, "%s of %r byte(s) at offset %r can exceed the destination's %r bytes (path guards %s)"
                                       % (what, n, dst.off, cap, st.prov)))

        def on_ret(w, st, i):
            rv = w.val(st, i.ops[0])
            frees = [e for e in st.events if e[0] == "free"]
            stores = [e for e in st.events if e[0] in ("store", "bufstore")]
            if isinstance(rv, Lin) and rv.is_const() and rv.k == 0:
                R["C11.R4"][0] += 1
                if frees or stores:
                    what = []
                    if frees:
                        what.append("frees %s (at %s)" % (frees[0][1], frees[0][2].locstr()))
                    if stores:
                        what.append("writes %s" % sorted({e[1] if isinstance(e[1], str) else repr(e[1]) for e in stores}))
                    R["C11.R4"][1].append((i, "a path returning 0 %s: the caller's string is no longer what it was "
                                           "(dangling or altered) although the set reported failure" % " and ".join(what)))
                return
            if not (isinstance(rv, Lin) and rv.is_const() and rv.k == 1):
                return
            R["C11.R3"][0] += 1
            final_len = st.mem.get(LENP)
            uni = st.mem.get(UNIP)
            if not isinstance(final_len, Lin) or any("#" in a for a in final_len.atoms()):
                # the stored length went through memory the model does not follow (e.g. an out-parameter of an inlined helper)
                UND["C11.R3"].append((i, "the length stored on this path is not a tracked value (%r)" % (final_len,)))
                UND["C11.R5"].append((i, "the length stored on this path is not a tracked value (%r)" % (final_len,)))
                return
            replaced = not (isinstance(uni, Ptr) and uni.base == "pdata0")
            old_frees = [e for e in frees if isinstance(e[1], Ptr) and e[1].base == "pdata0"]
            other_frees = [e for e in frees if e not in old_frees]
            keeps_old = isinstance(final_len, Lin) and w.entails(st, final_len + const(1)) and not replaced
            if entry_neg:
                want = 0 if keeps_old else 1
            else:
                want = 0
            unresolved = [e for e in frees if not isinstance(e[1], Ptr)]
            if unresolved and len(old_frees) != want:
                UND["C11.R3"].append((i, "a free() on this path has an argument the model does not resolve (%r)" % (unresolved[0][1],)))
            elif len(old_frees) != want or other_frees:
                R["C11.R3"][1].append((i, "on a successful path starting with %s storage the old block is freed %d time(s) (expected %d)%s"
                                       % ("separate" if entry_neg else "inline", len(old_frees), want,
                                          "; also frees %s" % other_frees[0][1] if other_frees else "")))
            # invariant after
            R["C11.R5"][0] += 1
            ok = False
            if isinstance(final_len, Lin):
                if w.entails(st, final_len + const(1)):        # negative: separate block
                    base = uni[1] if isinstance(uni, tuple) and uni and uni[0] == "alloc" else (uni.base if isinstance(uni, Ptr) else None)
                    cap = uni[2] if isinstance(uni, tuple) and uni and uni[0] == "alloc" else st.cap.get(base)
                    ok = cap is not None and w.entails(st, final_len.scale(-1) + const(1) - cap)
                elif w.entails(st, final_len.scale(-1)):       # non-negative: inline
                    ok = w.entails(st, final_len + const(1) - st.cap["idata"]) and not replaced or \
                        (w.entails(st, final_len + const(1) - st.cap["idata"]))
            if not ok:
                R["C11.R5"][1].append((i, "representation invariant not re-established on success (final len %r)" % (final_len,)))
            # the terminator: a zero byte stored at [length] of the buffer that is active under the final length
            R["C11.R5"][0] += 1
            if isinstance(final_len, Lin):
                act, want_off = None, None
                if w.entails(st, final_len + const(1)):
                    act = uni[1] if isinstance(uni, tuple) and uni and uni[0] == "alloc" else (uni.base if isinstance(uni, Ptr) else None)
                    want_off = final_len.scale(-1)
                elif w.entails(st, final_len.scale(-1)):
                    act, want_off = "idata", final_len
                if act is None:
                    UND["C11.R5"].append((i, "the sign of the stored length is not decided on this path"))
                else:
                    term = False
                    for e in st.events:
                        if e[0] == "bufstore" and isinstance(e[1], Ptr) and e[1].base == act and e[2].ops[0].kind == "int" and e[2].ops[0].v == 0:
                            diff = e[1].off - want_off
                            if w.entails(st, diff) and w.entails(st, diff.scale(-1)):
                                term = True
                    direct = [e for e in st.events if e[0] == "store" and isinstance(e[1], str) and e[1] not in (UNIP, LENP)
                              and isinstance(e[2], Lin) and e[2].is_const() and e[2].k == 0]
                    if not term and direct:
                        # a zero byte is stored into the inline area through an address computed in place (not through the
                        # component helper): its offset is not a tracked quantity
                        UND["C11.R5"].append((i, "a zero byte is stored at %s, an address the model does not resolve to a buffer and an offset"
                                              % direct[-1][1]))
                    elif any(e[0] == "loop-writes" for e in st.events) and not term:
                        UND["C11.R5"].append((i, "bytes are written inside a loop on this path; the terminator store is not itemised"))
                    elif not term:
                        R["C11.R5"][1].append((i, "a successful path (%s storage at entry, final length %r) stores no terminating NUL at "
                                               "[length] of the buffer that is active afterwards (%s): json_object_get_string returns "
                                               "bytes that are not NUL-terminated at the stored length (path guards %s)"
                                               % ("separate" if entry_neg else "inline", final_len, act, st.prov)))
        # allocation capacity: malloc(n) result used as destination
        orig_call = w._call

        def call_hook(st, i, block, orig=orig_call):
            r = orig(st, i, block)
            if i.callee == "malloc" and i.res in st.env and isinstance(st.env[i.res], tuple) and st.env[i.res][0] == "alloc":
                _, name, size = st.env[i.res]
                st.cap[name] = size
                # two outcomes: NULL or a block; keep one state (the null test forks)
                st.env[i.res] = Ptr(name, const(0))
                st.allocs = getattr(st, "allocs", {})
            return r
        w._call = call_hook
        # pointer null tests on Ptr values: the walker keeps both edges; on the NULL edge the block does not exist
        w.on_instr = on_instr
        w.on_ret = on_ret
        w.run(init)
    for rid, (n, bad) in R.items():
        if bad:
            i, msg = bad[0]
            chk.refuted(rid, f.name, rid, i.locstr(), msg)
        elif UND[rid]:
            i, msg = UND[rid][0]
            chk.undecided(rid, f.name, rid, i.locstr(), msg)
        else:
            chk.proven(rid, f.name, rid, f.entry.term.locstr(), "%d path obligations discharged" % n)
    chk.floor("C11.R4", R["C11.R4"][0], 3, "failing return paths of the set operation")


def r_ctor(chk, prog, m):
    rid = "C11.R5c"
    chk.rule(rid, "the constructor allocates header + len + 1 bytes (more for short strings), copies len bytes and stores the terminator at [len]")
    f = m.functions.get("_json_object_new_string")
    chk.require(f is not None and not f.is_decl, "_json_object_new_string not found")
    chk.touched(f)
    w = Walker(prog, f, view="unsigned")
    ln = f.params[1][1]
    res = {"n": 0, "bad": [], "und": []}
    HDR = 48    # offsetof(struct json_object_string, c_string) on LP64, checked against the struct layout below
    fields = m.structs.get("%struct.json_object_string")
    base = m.structs.get("%struct.json_object")
    if not (fields and base and len(base) == 6):
        chk.require(False, "json_object_string layout not found")

    def on_instr(w, st, i):
        if i.op == "call" and i.callee == "json_object_new":
            sz = w.val(st, i.ops[1])
            l = w.atom_for(st, ln, "i64")
            res["n"] += 1
            if not isinstance(sz, Lin) or any("#" in a for a in sz.atoms()):
                # the size went through memory or a call the model does not follow (an out-parameter of a helper)
                res["und"].append((i, "the allocation size is not a tracked value (%r)" % (sz,)))
            elif not (w.entails(st, l + const(HDR + 1) - sz) and w.entails(st, const(HDR + 8) - sz)):
                res["bad"].append((i, "allocation size %r is not shown >= header + len + 1 and >= header + pointer size (guards %s)" % (sz, st.prov)))
            st.objsize = sz
        if i.op == "call" and i.callee and i.callee.startswith("llvm.memcpy"):
            n = w.val(st, i.ops[2])
            l = w.atom_for(st, ln, "i64")
            res["n"] += 1
            if not isinstance(n, Lin) or any("#" in a for a in n.atoms()):
                res["und"].append((i, "the number of bytes copied is not a tracked value (%r)" % (n,)))
            elif not (w.entails(st, n - l) and w.entails(st, l - n)):
                res["bad"].append((i, "copies %r bytes, not len" % (n,)))
    w.on_instr = on_instr

    def init(w, st):
        w.atom_for(st, ln, "i64")
    w.run(init)
    # terminator store: a store of 0 through idata indexed by len
    P = Paths(f, prog)
    term = [i for i in f.instrs() if i.op == "store" and i.ops[0].kind == "int" and i.ops[0].v == 0 and "c_string" in P.path(i.ops[1]) and ln in P.path(i.ops[1])]
    res["n"] += 1
    if not term:
        zero_stores = [i for i in f.instrs() if i.op == "store" and i.ops[0].kind == "int" and i.ops[0].v == 0 and (i.ops[0].type or "") == "i8"]
        if zero_stores:
            res["und"].append((zero_stores[0], "a zero byte is stored, but its address is not recognised as idata[len]"))
        else:
            res["bad"].append((f.entry.term, "no terminator is stored at all: the constructor writes no zero byte"))
    if res["bad"]:
        i, msg = res["bad"][0]
        chk.refuted(rid, f.name, "constructor", i.locstr(), msg)
    elif res["und"]:
        i, msg = res["und"][0]
        chk.undecided(rid, f.name, "constructor", i.locstr(), msg)
    else:
        chk.proven(rid, f.name, "constructor", f.entry.term.locstr(), "%d obligations on %d paths" % (res["n"], w.paths))


def _derives_from_len(f, P, v, depth):
    if v.kind != "reg" or depth > 8:
        return False
    d = f.defs.get(v.v)
    if d is None:
        return False
    if d.op == "load":
        return P.path(d.ops[0]).endswith("->len")
    if d.op == "call":
        return bool(d.callee) and "get_string_len" in d.callee
    if d.op in ("sext", "zext", "trunc", "bitcast"):
        return _derives_from_len(f, P, d.ops[0], depth + 1)
    if d.op in ("phi", "select", "sub"):
        ops = d.ops[1:] if d.op == "select" else d.ops
        regs = [o for o in ops if o.kind == "reg" and o.v != v.v]
        return bool(regs) and all(_derives_from_len(f, P, o, depth + 1) for o in regs)
    return False


NUL_SCANNERS = {"strlen", "strdup", "strcmp", "strcasecmp", "strcpy", "strcat", "strchr", "strrchr", "strstr", "json_object_new_string",
                "json_object_set_string", "printbuf_strappend", "strtod", "strtoll", "strtoull", "json_parse_int64", "json_parse_uint64",
                "atoi", "atol", "puts", "fputs"}
DATA_SOURCES = ("get_string_component", "get_string_component_mutable", "json_object_get_string")


def r6(chk, prog, m):
    rid = "C11.R6"
    chk.rule(rid, "in equality, copy and serialization a string's bytes travel with the stored length: every call that receives the data "
                  "pointer of a string node also receives a length derived from the node's length field, and the data pointer never "
                  "reaches a function that scans to the first NUL (strlen, strdup, strcmp, json_object_new_string, ...)")
    targets = ("json_object_equal", "json_c_shallow_copy_default", "json_object_string_to_json_string")
    n = 0
    for fname in targets:
        f = prog.fn(fname)
        chk.require(f is not None, fname + " not found")
        chk.touched(f)
        P = Paths(f, prog)
        cfg = cfg_of(f)
        data = set()
        for i in f.instrs():
            if i.op == "call" and i.callee in DATA_SOURCES and i.res is not None:
                data.add(i.res)
        work = list(data)
        while work:
            r = work.pop()
            for u in cfg.users(r):
                if u.op in ("bitcast", "phi", "select", "getelementptr") and u.res is not None and u.res not in data:
                    data.add(u.res)
                    work.append(u.res)
        consumers = [c for c in f.instrs() if c.op == "call" and c.callee and c.callee not in DATA_SOURCES
                     and any(o.kind == "reg" and o.v in data for o in c.ops)]
        if not consumers:
            n += 1
            chk.undecided(rid, fname, "string data in %s" % fname, f.entry.term.locstr(), "no call receives the string's data pointer here")
            continue
        for c in consumers:
            n += 1
            sig = "%s in %s" % (c.callee, fname)
            others = [o for o in c.ops if not (o.kind == "reg" and o.v in data)]
            if c.callee in NUL_SCANNERS:
                chk.refuted(rid, fname, sig, c.locstr(),
                            "the string's data pointer is handed to %s, which stops at the first NUL: bytes after an embedded NUL are ignored"
                            % c.callee)
            elif any(_derives_from_len(f, P, o, 0) for o in others):
                chk.proven(rid, fname, sig, c.locstr(), "a length derived from the stored length travels with the data")
            else:
                lens = [P.path(o) for o in others if o.kind == "reg"]
                if any("strlen" in l for l in lens):
                    chk.refuted(rid, fname, sig, c.locstr(), "the length passed with the data is strlen of it, not the stored length")
                else:
                    chk.undecided(rid, fname, sig, c.locstr(), "no argument of this call is recognisably the stored length")
    # everywhere else in the module: the node's data pointer must not reach a routine that compares / measures / copies up to the
    # first NUL (conversions of the text to a number stop at a NUL by definition and are not listed here)
    STRICT_SCANNERS = {"strcmp", "strcasecmp", "strncmp", "strncasecmp", "strlen", "strdup", "strcpy", "strcat", "strchr", "strrchr", "strstr"}
    for f in [g for g in m.functions.values() if not g.is_decl and g.name not in targets]:
        srcs = [i for i in f.instrs() if i.op == "call" and i.callee in DATA_SOURCES and i.res is not None]
        if not srcs:
            continue
        cfg = cfg_of(f)
        data = {i.res for i in srcs}
        work = list(data)
        while work:
            r = work.pop()
            for u in cfg.users(r):
                if u.op in ("bitcast", "phi", "select", "getelementptr") and u.res is not None and u.res not in data:
                    data.add(u.res)
                    work.append(u.res)
        for c in f.instrs():
            if c.op == "call" and c.callee in STRICT_SCANNERS and any(o.kind == "reg" and o.v in data for o in c.ops):
                n += 1
                chk.touched(f)
                chk.refuted(rid, f.name, "%s in %s" % (c.callee, f.name), c.locstr(),
                            "the string's data pointer is handed to %s, which stops at the first NUL: contents with an embedded NUL are "
                            "treated as their prefix (the stored length is ignored)" % c.callee)
    chk.floor(rid, n, 3, "consumers of string data in equality / copy / serialization")


# ---------------------------------------------------------------------------
# R7 the sign-encoded length is decoded before it is used as a length
def _sign_ctx(f, P, conds, lpath):
    """'neg' / 'nonneg' / None from a list of (cmp, truth) conditions about the location lpath"""
    for c, tr in conds:
        if getattr(c, "op", None) != "icmp":
            continue
        a, b = c.ops
        if a.kind != "reg" or b.kind != "int":
            continue
        if P.path(a) != lpath:
            continue
        pred = c.x["pred"]
        if b.v == 0 and pred in ("slt", "sge"):
            return "neg" if (pred == "slt") == tr else "nonneg"
        if b.v == -1 and pred in ("sgt", "sle"):
            return "nonneg" if (pred == "sgt") == tr else "neg"
    return None


def _edge_conds(f, pred_block, succ_block):
    from ..flow import _flatten_cond
    out = list(dominating_conditions(f, pred_block))
    t = pred_block.term
    if t.op == "br" and len(t.x["targets"]) == 2 and t.ops and t.x["targets"][0] != t.x["targets"][1]:
        truth = f.blocks[t.x["targets"][0]] is succ_block
        out += _flatten_cond(f, t.ops[0], truth)
    return out


def r7(chk, prog, m):
    rid = "C11.R7"
    chk.rule(rid, "a string node's length field is sign-encoded (negative = separately allocated block): every value read from it is "
                  "used only in a sign test, a zero test, or after decoding (negated where len < 0 is known, as is where len >= 0 is "
                  "known); it never reaches a comparison, an argument, arithmetic or a return while still encoded")
    n = 0
    for f in [g for g in m.functions.values() if not g.is_decl]:
        P = None
        cfg = None
        for ld in f.instrs():
            if ld.op != "load" or not _is_string_obj(f, ld.ops[0]):
                continue
            if P is None:
                P = Paths(f, prog)
                cfg = cfg_of(f)
            lpath = P.path(ld.ops[0])
            if not lpath.endswith("->len") and not lpath.endswith(".len"):
                continue
            n += 1
            chk.touched(f)
            bad = []
            seen = set()

            def visit(v, kind):
                if (v, kind) in seen:
                    return
                seen.add((v, kind))
                for u in cfg.users(v):
                    if u.op == "phi":
                        escaped = False
                        for val, lab in u.x["incoming"]:
                            if val.kind == "reg" and val.v == v:
                                ctx = _sign_ctx(f, P, _edge_conds(f, f.blocks[lab], u.block), lpath)
                                if not ((kind == "raw" and ctx == "nonneg") or (kind == "neg" and ctx == "neg")):
                                    escaped = True
                        if escaped:
                            visit(u.res, kind)
                        continue
                    conds = dominating_conditions(f, u.block)
                    ctx = _sign_ctx(f, P, conds, lpath)
                    if u.op == "select":
                        c = u.ops[0]
                        from ..flow import _flatten_cond
                        arms = []
                        if u.ops[1].kind == "reg" and u.ops[1].v == v:
                            arms.append(True)
                        if u.ops[2].kind == "reg" and u.ops[2].v == v:
                            arms.append(False)
                        esc = False
                        for truth in arms:
                            actx = _sign_ctx(f, P, _flatten_cond(f, c, truth), lpath) or ctx
                            if not ((kind == "raw" and actx == "nonneg") or (kind == "neg" and actx == "neg")):
                                esc = True
                        if esc:
                            visit(u.res, kind)
                        continue
                    if (kind == "raw" and ctx == "nonneg") or (kind == "neg" and ctx == "neg"):
                        continue      # decoded here
                    if u.op == "icmp" and kind == "raw":
                        other = u.ops[1] if (u.ops[0].kind == "reg" and u.ops[0].v == v) else u.ops[0]
                        if other.kind == "int" and other.v == 0 and u.x["pred"] in ("eq", "ne", "slt", "sge"):
                            continue
                        if other.kind == "int" and other.v == -1 and u.x["pred"] in ("sgt", "sle"):
                            continue
                        bad.append((u, "compared (%s) while still sign-encoded" % u.x["pred"]))
                        continue
                    if u.op == "sub" and u.ops[0].kind == "int" and u.ops[0].v == 0 and kind == "raw":
                        visit(u.res, "neg")
                        continue
                    if u.op in ("sext", "zext", "trunc", "bitcast"):
                        visit(u.res, kind)
                        continue
                    bad.append((u, "used by %s while still sign-encoded" % (u.op if u.op != "call" else "a call to %s" % (u.callee or "a function pointer"))))

            visit(ld.res, "raw")
            sig = "read of %s" % lpath
            if bad:
                u, why = bad[0]
                chk.refuted(rid, f.name, sig, ld.locstr(),
                            "the length field read here is %s at %s: for a string whose bytes live in the separately allocated block the "
                            "field holds minus the length" % (why, u.locstr()), {"uses": ["%s: %s" % (x.locstr(), y) for x, y in bad]})
            else:
                chk.proven(rid, f.name, sig, ld.locstr(), "only sign / zero tests and decoded uses")
    chk.floor(rid, n, 6, "reads of the string length field")


def r8_wrappers(chk, prog, m):
    """the public entry points hand the caller's length on unchanged"""
    rid = "C11.R8"
    chk.rule(rid, "every public function that creates or sets a string hands the internal routine the caller's length unchanged "
                  "(through integer conversions only) when it takes one, and strlen of the caller's C string when it does not: a "
                  "length recomputed by a routine that stops at a NUL (strnlen ...) truncates contents with an embedded NUL")
    INTERNAL = {"_json_object_set_string_len": 2, "_json_object_new_string": 1}
    n = 0
    for f in [g for g in m.functions.values() if not g.is_decl and not g.internal]:
        for i in f.instrs():
            if i.op != "call" or i.callee not in INTERNAL:
                continue
            k = INTERNAL[i.callee]
            if k >= len(i.ops):
                continue
            n += 1
            chk.touched(f)
            a = i.ops[k]
            hops = 0
            d = f.defs.get(a.v) if a.kind == "reg" else None
            while d is not None and d.op in ("sext", "zext", "trunc") and hops < 4:
                a = d.ops[0]
                d = f.defs.get(a.v) if a.kind == "reg" else None
                hops += 1
            ints = [nm for t, nm in f.params if t.startswith("i") and t not in ("i8*",) and not t.endswith("*")]
            sig = "length handed to %s by %s" % (i.callee, f.name)
            if a.kind == "reg" and a.v in ints:
                chk.proven(rid, f.name, sig, i.locstr(), "the caller's length, unchanged")
            elif a.kind == "int":
                chk.proven(rid, f.name, sig, i.locstr(), "a constant length")
            elif d is not None and d.op == "call" and d.callee == "strlen" and not ints:
                chk.proven(rid, f.name, sig, i.locstr(), "strlen of the caller's C string")
            elif d is not None and d.op == "call" and d.callee in ("strnlen", "strlen") and ints:
                chk.refuted(rid, f.name, sig, i.locstr(),
                            "the caller passes a length, but the length handed on is %s(...): contents with an embedded NUL before that "
                            "length are cut at the NUL" % d.callee)
            else:
                chk.undecided(rid, f.name, sig, i.locstr(), "the length handed on is neither the caller's length nor strlen of its string")
    chk.floor(rid, n, 3, "public string constructors / setters")
