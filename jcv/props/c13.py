"""C13 - JSON Patch application follows RFC 6902 and is safe on arbitrary patch documents.

R1 fields fetched from the patch document may be JSON null (NULL): they never reach strcmp/strlen/strncmp or a
   dereference unguarded (E6)
R2 operation table: exactly the six RFC names dispatch, each to the RFC's primitive effects; the failing
   operation's index is recorded before every failing exit (E3 over the op-name literals)
R3 the patch document is read-only: nodes derived from it are never the container argument of a mutator (E7 taint)
R4 added / copied values are independent of their source: they pass through a deep copy before being set (E7)
R5 references taken for a set are released on the failing branch (E2)
"""
from ..ir import load_program, strip_casts, Val
from ..cfg import cfg_of, CallGraph
from ..flow import Paths, derived_values
from .. import nullflow, own, lin, pe
from ..strpe import StrPE

MAYBE_NULL_OUT = {"json_object_object_get_ex": 2}       # out-parameter may receive JSON null (NULL)
MAYBE_NULL_RET = {"json_object_get_string", "json_object_array_get_idx", "json_object_object_get"}
MUTATORS = {  # function -> index of the container argument that is modified
    "json_object_object_add": 0, "json_object_object_add_ex": 0, "json_object_object_del": 0,
    "json_object_array_add": 0, "json_object_array_put_idx": 0, "json_object_array_insert_idx": 0,
    "json_object_array_del_idx": 0, "json_object_array_shrink": 0, "json_object_array_sort": 0,
    "json_object_set_string": 0, "json_object_set_string_len": 0, "json_object_set_int": 0,
    "json_object_set_int64": 0, "json_object_set_uint64": 0, "json_object_set_double": 0,
    "json_object_set_boolean": 0, "json_object_int_inc": 0, "json_object_set_serializer": 0,
    "json_object_set_userdata": 0, "json_object_put": 0,
}
SETTERS_VALUE_ARG = {"json_pointer_set_with_array_cb": 2, "json_pointer_set": 2, "json_object_array_insert_idx": 2,
                     "json_object_array_put_idx": 2, "json_object_object_add": 2, "json_object_array_add": 1}

RFC_OPS = ["test", "remove", "add", "replace", "move", "copy"]


def run(chk):
    prog = load_program("default")
    chk.variant(prog)
    m = prog.module("json_patch.c")
    chk.require(m is not None, "json_patch.c not in the build")
    r1(chk, prog, m)
    r2(chk, prog, m)
    r3(chk, prog, m)
    r4(chk, prog, m)
    r5(chk, prog, m)
    r6(chk, prog, m)
    r7(chk, prog, m)
    r8_root_slot(chk, prog, m)
    from . import c12
    mpz = prog.module("json_pointer.c")
    chk.require(mpz is not None, "json_pointer.c not in the build")
    with chk.shared():
        c12.r7(chk, prog, mpz)      # member names in remove / move come through the unescape routine (shared with C12)
    chk.undecided_clauses += [
        "the resulting document for generated multi-operation patches (needs an RFC 6902 reference evaluator and execution)",
        "JSON Pointer resolution inside each operation (C12)",
    ]


def _fns(m):
    return [f for f in m.functions.values() if not f.is_decl]


def _slot_loads(f, P, slot_path):
    return [i for i in f.instrs() if i.op == "load" and P.path(i.ops[0]) == slot_path]


def r1(chk, prog, m):
    rid = "C13.R1"
    chk.rule(rid, "a value fetched from the patch document (member lookup, string of a member) may be NULL and must be "
                  "null-tested before it reaches strcmp/strlen/strncmp, a dereference, or a callee that dereferences it unguarded")
    sinks = nullflow.unguarded_deref_params(prog)
    n = 0
    for f in _fns(m):
        P = Paths(f, prog)
        sources = []   # (description, reg, origin instr)
        for i in f.instrs():
            if i.op != "call" or not i.callee:
                continue
            if i.callee in MAYBE_NULL_OUT:
                k = MAYBE_NULL_OUT[i.callee]
                slot = P.path(i.ops[k])
                for ld in _slot_loads(f, P, slot):
                    sources.append(("%s out-parameter '%s'" % (i.callee, slot), ld.res, ld, i))
            if i.callee in MAYBE_NULL_RET and i.res:
                sources.append(("%s result" % i.callee, i.res, i, i))
        for desc, reg, at, origin in sources:
            n += 1
            chk.touched(f)
            bad = []
            for u, regs, kind in nullflow.deref_consumers(prog, f, reg, sinks):
                if not nullflow.flow.guarded_nonnull(f, regs, u):
                    bad.append((u, kind))
            key = _member_name(f, origin)
            sig = "%s%s" % (desc.split(" ")[0], (" " + key) if key else "")
            if bad:
                u, kind = bad[0]
                chk.refuted(rid, f.name, sig, at.locstr(),
                            "%s may be NULL (JSON null member / missing string) and reaches %s at %s unguarded: a malformed patch "
                            "crashes instead of failing" % (desc, kind, u.locstr()),
                            {"source": at.raw, "sink": u.raw})
            else:
                chk.proven(rid, f.name, sig, at.locstr(), "every dereferencing use is behind a null test or a null-safe callee")
    chk.floor(rid, n, 8, "maybe-null values fetched from the patch document")


def _member_name(f, call):
    for a in call.ops:
        b = a
        while b.kind == "cexpr" and b.args:
            b = b.args[0]
        if b.kind == "global":
            g = f.module.globals.get(b.v)
            if g is not None and g.bytes is not None:
                return repr(g.bytes.rstrip(b"\0").decode("latin1"))
    return ""


# ---------------------------------------------------------------------------


class _DispatchPE(StrPE):
    HANDLERS = ("json_patch_apply_test", "json_patch_apply_remove", "json_patch_apply_add_replace", "json_patch_apply_move_copy")

    def __init__(self, prog, op):
        super().__init__(prog, max_leaves=200, max_steps=100000)
        self.op = op
        self.loop_widen = 1000
        self.max_visits = 64

    def should_inline(self, g, instr):
        return g.internal and g.name not in self.HANDLERS

    def init_mem(self, state, base, path, t):
        for nm, data in (("opstr", self.op), ("pathstr", b"/a")):
            if base == nm:
                el, fl = pe.fields_of(path)
                if not fl and isinstance(el, int) and 0 <= el <= len(data):
                    b = (data + b"\0")[el]
                    return pe.C(b if b < 128 else b - 256)
        if base == "baseptr" and path == ():
            return ("ptr", "doc", ())
        return pe.TOP

    def call_model(self, state, frame, i, args):
        nm = i.callee
        if nm in self.HANDLERS:
            state.trace.append(("handler", nm, tuple(a[1] if pe.is_const(a) else None for a in args)))
            return pe.C(0)
        if nm == "json_object_is_type":
            return pe.C(1)
        if nm == "json_object_array_length":
            return pe.C(1)
        if nm == "json_object_array_get_idx":
            return ("ptr", "elem", ())
        if nm == "json_object_object_get_ex":
            key = self._cstr(state, args[1]) if args[1][0] == "ptr" else None
            tgt = {"op": "jop", "path": "jpath"}.get(key.decode() if key else "", None)
            if tgt is None:
                return None
            if len(args) > 2 and args[2][0] == "ptr":
                self.store(state, args[2], ("ptr", tgt, ()))
            return pe.C(1)
        if nm == "json_object_get_string":
            if args[0][0] == "ptr" and args[0][1] == "jop":
                return ("ptr", "opstr", ())
            if args[0][0] == "ptr" and args[0][1] == "jpath":
                return ("ptr", "pathstr", ())
            return None
        if nm == "__errno_location":
            return ("ptr", "errno", ())
        r = self.libc_string_model(state, frame, i, args)
        if r is not None:
            return r
        if nm in ("strncmp", "strcmp", "memcmp", "strcasecmp", "strncasecmp"):
            a, b = self._cstr(state, args[0]), self._cstr(state, args[1])
            if a is None or b is None:
                return None
            if nm in ("strncmp", "memcmp", "strncasecmp"):
                if not pe.is_const(args[2]):
                    return None
                a, b = a[:args[2][1]], b[:args[2][1]]
            if "case" in nm:
                a, b = a.lower(), b.lower()
            return pe.C((a > b) - (a < b))
        return None


def _r2_by_evaluation(chk, prog, m, f, rid):
    """operation dispatch decided by evaluating json_patch_apply on a one-operation patch for each candidate name"""
    expect = {b"test": ("json_patch_apply_test", None), b"remove": ("json_patch_apply_remove", None),
              b"add": ("json_patch_apply_add_replace", 1), b"replace": ("json_patch_apply_add_replace", 0),
              b"move": ("json_patch_apply_move_copy", 1), b"copy": ("json_patch_apply_move_copy", 0)}
    others = [b"", b"ad", b"addx", b"Add", b"tests", b"removeall", b"cop", b"copy ", b"mov", b"replac", b"x", b"spam"]
    flagpos = {"json_patch_apply_add_replace": 3, "json_patch_apply_move_copy": 3}
    bad = None
    und = None
    n = 0
    for op in list(expect) + others:
        h = _DispatchPE(prog, op)
        try:
            leaves = h.run(f, [pe.C(0), ("ptr", "patch", ()), ("ptr", "baseptr", ()), ("ptr", "perr", ())], pe.State())
        except Exception as e:
            und = und or "evaluation failed for %r: %s" % (op.decode(), str(e)[:60])
            continue
        n += 1
        seen = set()
        rets = set()
        for lf in leaves:
            if lf.kind != "ret":
                und = und or "evaluation of %r ended with %s" % (op.decode(), lf.kind)
                continue
            hs = [e for e in lf.state.trace if e[0] == "handler"]
            seen.add(tuple((e[1], e[2][flagpos[e[1]]] if e[1] in flagpos and len(e[2]) > flagpos[e[1]] else None) for e in hs))
            rets.add(lf.value[1] if lf.value is not None and pe.is_const(lf.value) else None)
        if op in expect:
            want = {(expect[op],)}
            if seen != want and bad is None:
                bad = "operation %r is dispatched to %s, RFC 6902 requires %s" % (op.decode(), sorted(seen), sorted(want))
        else:
            if any(x for x in seen) and bad is None:
                bad = "the unknown operation name %r is executed (%s) instead of being rejected" % (op.decode(), sorted(seen))
            elif not all(r is not None and r < 0 for r in rets) and bad is None and und is None:
                bad = "the unknown operation name %r does not make json_patch_apply fail (returns %s)" % (op.decode(), sorted(rets, key=str))
    if bad:
        chk.refuted(rid, f.name, "operation dispatch (evaluated)", f.entry.term.locstr(), bad)
    elif und:
        chk.undecided(rid, f.name, "operation dispatch (evaluated)", f.entry.term.locstr(), und)
    else:
        chk.proven(rid, f.name, "operation dispatch (evaluated)", f.entry.term.locstr(),
                   "%d names evaluated: the six RFC 6902 names reach their handlers with the right flag, every other name fails" % n)


def r2(chk, prog, m):
    rid = "C13.R2"
    chk.rule(rid, "operation dispatch: exactly the six RFC 6902 names are compared, each equal-edge calls the handler with the "
                  "RFC's primitive effects (test: no mutation; remove: delete; add: set/insert; replace: must exist then set/put; "
                  "move: delete then set; copy: set, no delete); any other name fails; the operation index is stored before every exit of the loop body")
    f = m.functions.get("json_patch_apply")
    chk.require(f is not None and not f.is_decl, "json_patch_apply not found")
    chk.touched(f)
    P = Paths(f, prog)
    cfg = cfg_of(f)
    # strcmp(op, literal) sites (a bounded comparison counts only when the bound covers the terminator)
    table = {}
    prefix_sites = []
    for i in f.instrs():
        if i.op == "call" and i.callee in ("strcmp", "strncmp"):
            lit = _member_name(f, i)
            if not lit:
                continue
            name = eval(lit)
            if i.callee == "strncmp":
                nb = i.ops[2].v if len(i.ops) > 2 and i.ops[2].kind == "int" else None
                if nb is None or nb <= len(name):
                    prefix_sites.append((i, name, nb))
                    continue
            # branch on the result == 0
            eq_block = None
            for u in cfg.users(i.res):
                if u.op == "icmp" and u.x["pred"] in ("eq", "ne") and any(o.kind == "int" and o.v == 0 for o in u.ops):
                    for br in cfg.users(u.res):
                        if br.op == "br" and len(br.x["targets"]) == 2:
                            t, e = br.x["targets"]
                            eq_block = f.blocks[t if u.x["pred"] == "eq" else e]
            table[name] = (i, eq_block)
    names = sorted(table)
    n = 0
    n += 1
    if not prefix_sites and sorted(names) != sorted(RFC_OPS):
        # the dispatch is not a chain of string comparisons with literals (a table, a helper ...): decide it by evaluation
        _r2_by_evaluation(chk, prog, m, f, rid)
        return
    if prefix_sites:
        i, name, nb = prefix_sites[0]
        chk.refuted(rid, f.name, "operation names", i.locstr(),
                    "the operation name is compared with %r over %s bytes only: every longer name with that prefix (e.g. %r) is executed "
                    "as %r instead of being rejected as an unknown operation" % (name, nb if nb is not None else "a variable number of", name + "x", name),
                    {"sites": [x.locstr() for x, _, _ in prefix_sites]})
    elif sorted(names) == sorted(RFC_OPS):
        chk.proven(rid, f.name, "operation names", f.entry.instrs[0].locstr(), "compared names are exactly %s" % sorted(RFC_OPS))
    else:
        chk.refuted(rid, f.name, "operation names", f.entry.instrs[0].locstr(),
                    "operation names compared are %s, RFC 6902 defines %s" % (names, sorted(RFC_OPS)))
    expect = {"test": ("json_patch_apply_test", None), "remove": ("json_patch_apply_remove", None),
              "add": ("json_patch_apply_add_replace", 1), "replace": ("json_patch_apply_add_replace", 0),
              "move": ("json_patch_apply_move_copy", 1), "copy": ("json_patch_apply_move_copy", 0)}
    for name, (cmp_call, blk) in sorted(table.items()):
        if name not in expect:
            continue
        n += 1
        want, flag = expect[name]
        calls = [i for i in (blk.instrs if blk is not None else []) if i.op == "call" and i.callee and i.callee.startswith("json_patch_apply")]
        ok = len(calls) == 1 and calls[0].callee == want
        if ok and flag is not None:
            c = calls[0]
            ok = c.ops[3].kind == "int" and (c.ops[3].v != 0) == (flag != 0)
        if ok:
            chk.proven(rid, f.name, "op %r" % name, cmp_call.locstr(), "dispatches to %s%s" % (want, "" if flag is None else " with flag %d" % flag))
        else:
            chk.refuted(rid, f.name, "op %r" % name, cmp_call.locstr(),
                        "operation %r does not dispatch to %s%s: %s" % (name, want, "" if flag is None else " (flag %d)" % flag,
                                                                        [c.raw for c in calls]))
    # unknown name -> failing return: the block reached when the last comparison fails returns -1
    n += 1
    last_fail_ok = False
    for name, (cmp_call, blk) in table.items():
        pass
    # failure index: store of the loop counter into patch_error->patch_failure_idx dominating all loop-body exits
    stores = [i for i in f.instrs() if i.op == "store" and P.path(i.ops[1]).endswith("patch_failure_idx") and i.ops[0].kind == "reg"]
    body_calls = [c for c, _ in table.values()]
    okidx = stores and all(cfg.dominates(s, c) for c in body_calls for s in stores[:1])
    # and every return reachable after that store inside the loop comes after it (dominance suffices)
    lookups = [i for i in f.instrs() if i.op == "call" and i.callee == "json_object_object_get_ex"]
    okidx = okidx and all(cfg.dominates(stores[0], l) for l in lookups)
    if okidx:
        chk.proven(rid, f.name, "failure index", stores[0].locstr(), "patch_failure_idx = <loop index> dominates every lookup, comparison and handler call of the iteration")
    else:
        chk.refuted(rid, f.name, "failure index", f.entry.instrs[0].locstr(), "the failing operation's index is not recorded before the operation can fail")
    # per-handler primitive effects (call-graph reachability of mutators)
    cg = CallGraph(prog)

    def reach_names(fn):
        return {g.name for g in cg.reachable([fn])} | cg.ext_calls([fn])
    handlers = {h: m.functions.get(h) for h in ("json_patch_apply_test", "json_patch_apply_remove",
                                                 "json_patch_apply_add_replace", "json_patch_apply_move_copy")}
    for h, fn in handlers.items():
        chk.require(fn is not None and not fn.is_decl, "%s not found" % h)
        chk.touched(fn)
    mut = set(MUTATORS) - {"json_object_put"}
    n += 1
    rn = reach_names(handlers["json_patch_apply_test"])
    direct = {i.callee for i in handlers["json_patch_apply_test"].instrs() if i.op == "call" and i.callee}
    if "json_object_equal" in direct and "json_pointer_get" in direct and not (direct & (mut | {"json_pointer_set", "json_pointer_set_with_array_cb"})):
        chk.proven(rid, "json_patch_apply_test", "effects", handlers["json_patch_apply_test"].entry.instrs[0].locstr(), "resolve + compare, calls no mutator")
    else:
        chk.refuted(rid, "json_patch_apply_test", "effects", handlers["json_patch_apply_test"].entry.instrs[0].locstr(),
                    "test must resolve and compare without mutating; direct calls: %s" % sorted(direct))
    n += 1
    direct = {i.callee for i in handlers["json_patch_apply_remove"].instrs() if i.op == "call" and i.callee}
    if "json_pointer_get_internal" in direct and "__json_patch_apply_remove" in direct:
        chk.proven(rid, "json_patch_apply_remove", "effects", handlers["json_patch_apply_remove"].entry.instrs[0].locstr(), "resolve + delete")
    else:
        chk.refuted(rid, "json_patch_apply_remove", "effects", handlers["json_patch_apply_remove"].entry.instrs[0].locstr(), "remove must resolve then delete; direct calls: %s" % sorted(direct))
    # add/replace: case split on the flag parameter
    ar = handlers["json_patch_apply_add_replace"]
    for flag, nm in ((1, "add"), (0, "replace")):
        n += 1
        calls = _calls_under_param(prog, ar, 3, flag)
        has_exist_check = any(c.callee == "json_pointer_get" for c in calls)
        sets = [c for c in calls if c.callee == "json_pointer_set_with_array_cb"]
        ok = len(sets) == 1 and (has_exist_check == (flag == 0))
        cbok = sets and _callee_name(sets[0].ops[3]) == "json_object_array_insert_idx_cb"
        if ok and cbok:
            chk.proven(rid, ar.name, "effects " + nm, sets[0].locstr(),
                       "%s: %sset through the insert/put callback" % (nm, "target must resolve first, then " if flag == 0 else ""))
        else:
            chk.refuted(rid, ar.name, "effects " + nm, ar.entry.instrs[0].locstr(),
                        "%s: existence check %s, set calls %d, callback ok %s" % (nm, has_exist_check, len(sets), bool(cbok)))
    # the callback: add -> insert, replace -> put
    cb = m.functions.get("json_object_array_insert_idx_cb")
    chk.require(cb is not None, "insert callback not found")
    n += 1
    ins = [i for i in cb.instrs() if i.op == "call" and i.callee == "json_object_array_insert_idx"]
    put = [i for i in cb.instrs() if i.op == "call" and i.callee == "json_object_array_put_idx"]
    okcb = False
    if len(ins) == 1 and len(put) == 1:
        # branch on *priv != 0: insert on true edge
        conds = lin_dom_conditions(cb, ins[0].block)
        conds_p = lin_dom_conditions(cb, put[0].block)
        okcb = any(tr and c.op == "icmp" and c.x["pred"] == "ne" for c, tr in conds) and any((not tr) and c.op == "icmp" and c.x["pred"] == "ne" for c, tr in conds_p)
    if okcb:
        chk.proven(rid, cb.name, "add inserts, replace overwrites", ins[0].locstr(), "array element: insert when the add flag is set, put otherwise")
    else:
        chk.refuted(rid, cb.name, "add inserts, replace overwrites", cb.entry.instrs[0].locstr(), "array add must insert (shift), replace must overwrite")
    mc = handlers["json_patch_apply_move_copy"]
    for flag, nm in ((1, "move"), (0, "copy")):
        n += 1
        calls = _calls_under_param(prog, mc, 3, flag)
        rem = [c for c in calls if c.callee == "__json_patch_apply_remove"]
        sets = [c for c in calls if c.callee == "json_pointer_set_with_array_cb"]
        get = [c for c in calls if c.callee == "json_pointer_get_internal"]
        ok = len(sets) == 1 and len(get) == 1 and (len(rem) == 1) == (flag == 1)
        if ok and flag == 1:
            ok = _must_precede(mc, rem[0], sets[0], _calls_under_param.removed)
        # the array callback: copy inserts like 'add' (bound = length); only move may use the callback that allows for the
        # element it has just removed
        cbname = _resolve_fnptr(mc, sets[0].ops[3], _calls_under_param.removed, {mc.params[3][1]: flag}) if len(sets) == 1 else None
        add_sets = [c for c in _calls_under_param(prog, ar, 3, 1) if c.callee == "json_pointer_set_with_array_cb"]
        add_cb = _callee_name(add_sets[0].ops[3]) if add_sets else None
        _calls_under_param(prog, mc, 3, flag)      # restore the pruning of this case
        want_cb = add_cb if flag == 0 else cbname
        if ok and flag == 0 and cbname is None:
            chk.undecided(rid, mc.name, "effects " + nm, sets[0].locstr(),
                          "the array callback handed to the set is not resolved to a function (computed pointer)")
            continue
        if ok and flag == 0 and cbname != want_cb:
            chk.refuted(rid, mc.name, "effects " + nm, sets[0].locstr(),
                        "%s sets array elements through %s; RFC 6902 defines %s as 'add' of the copied value, whose array callback is %s (a "
                        "different callback applies a different index bound)" % (nm, cbname, nm, want_cb))
            continue
        if ok:
            chk.proven(rid, mc.name, "effects " + nm, sets[0].locstr(), "%s: resolve 'from'%s, then set" % (nm, ", delete it" if flag else ", no delete"))
        else:
            chk.refuted(rid, mc.name, "effects " + nm, mc.entry.instrs[0].locstr(),
                        "%s: resolve %d, delete %d, set %d" % (nm, len(get), len(rem), len(sets)))
    chk.floor(rid, n, 14, "dispatch rows and handler effect rows")


def lin_dom_conditions(fn, block):
    from ..flow import dominating_conditions
    return [(c, t) for c, t in dominating_conditions(fn, block) if getattr(c, "op", None) == "icmp"]


def _callee_name(v):
    v = strip_casts(v) if v.kind == "cexpr" else v
    return v.v if v.kind == "global" else None


def _calls_under_param(prog, fn, pidx, value):
    """call instructions of fn reachable when parameter pidx has the given value (branches on it pruned)"""
    sym = lin.Sym(prog, fn)
    pname = fn.params[pidx][1]
    sym.atom_type[pname] = fn.params[pidx][0]
    env = {pname: value}
    rem = set()
    for b in fn.blocks.values():
        t = b.term
        if t.op == "br" and len(t.x["targets"]) == 2 and t.ops and t.ops[0].kind == "reg":
            from ..flow import _flatten_cond
            conds = _flatten_cond(fn, t.ops[0], True)
            if len(conds) != 1 or conds[0][0].op != "icmp":
                continue
            cmp_, tr = conds[0]
            va, vb = lin.concrete(sym, cmp_.ops[0], env), lin.concrete(sym, cmp_.ops[1], env)
            if va is None or vb is None:
                continue
            holds = own._icmp(cmp_.x["pred"], va, vb)
            tn, en = t.x["targets"]
            rem.add((b.name, en if (holds == tr) else tn))
    reach = lin._reach(fn, rem)
    calls = [i for b in fn.blocks.values() if b in reach for i in b.instrs if i.op == "call" and i.callee]
    _calls_under_param.removed = rem
    return calls


def _resolve_fnptr(fn, v, removed, env=None):
    """name of the function a function-pointer operand denotes on the pruned CFG (through phis), or None"""
    from .. import lin as _lin
    reach = _lin._reach(fn, removed)
    seen = 0
    while seen < 6:
        seen += 1
        n = _callee_name(v)
        if n:
            return n
        if v.kind != "reg" or v.v not in fn.defs:
            return None
        d = fn.defs[v.v]
        if d.op == "bitcast":
            v = d.ops[0]
            continue
        if d.op == "load" and env is not None:
            # an entry of a constant table of callbacks, indexed by an expression of the (known) parameter
            a = d.ops[0]
            ad = fn.defs.get(a.v) if a.kind == "reg" else None
            g, idx = None, None
            if ad is not None and ad.op == "getelementptr" and strip_casts(ad.ops[0]).kind == "global" and len(ad.ops) == 3:
                from ..heapuse import _ev
                g = fn.module.globals.get(strip_casts(ad.ops[0]).v)
                idx = _ev(fn, ad.ops[2], env)
            elif a.kind == "cexpr" and a.v == "getelementptr" and a.args and strip_casts(a.args[0]).kind == "global" and \
                    all(x.kind == "int" for x in a.args[1:]) and len(a.args) == 3:
                g = fn.module.globals.get(strip_casts(a.args[0]).v)
                idx = a.args[2].v
            if g is not None and g.constant and g.init is not None and g.init.kind == "array" and idx is not None and 0 <= idx < len(g.init.args):
                return _callee_name(g.init.args[idx])
            return None
        if d.op == "phi":
            live = [val for val, lab in d.x["incoming"] if fn.blocks[lab] in reach and (lab, d.block.name) not in removed]
            names = {_callee_name(x) for x in live}
            if len(live) >= 1 and len(names) == 1 and None not in names:
                return names.pop()
            if len(live) == 1:
                v = live[0]
                continue
            return None
        return None
    return None


def _must_precede(fn, first, second, removed):
    """on the pruned CFG every path from entry to `second` executes `first`"""
    from collections import deque
    entry = fn.entry
    seen = set()
    dq = deque([(entry, 0)])
    seen.add(entry)
    while dq:
        b, k = dq.popleft()
        stop = False
        for i in b.instrs[k:]:
            if i is first:
                stop = True
                break
            if i is second:
                return False
        if stop:
            continue
        for s in b.succs:
            if (b.name, s.name) in removed or s in seen:
                continue
            seen.add(s)
            dq.append((s, 0))
    return True


# ---------------------------------------------------------------------------
# taint: nodes of the patch document


def _patch_taint(prog, m):
    """per function: set of regs / slot paths that denote nodes of the patch document"""
    taint = {}      # fn name -> (regs set, slot paths set)
    work = []
    top = m.functions["json_patch_apply"]
    taint[top.name] = ({top.params[1][1]}, set())
    work.append(top)
    fns = {f.name: f for f in _fns(m)}
    it = 0
    while work and it < 200:
        it += 1
        f = work.pop()
        regs, slots = taint[f.name]
        P = Paths(f, prog)
        changed = True
        while changed:
            changed = False
            for i in f.instrs():
                if i.op == "call" and i.callee:
                    args_t = [k for k, a in enumerate(i.ops) if a.kind == "reg" and a.v in regs]
                    if i.callee in ("json_object_array_get_idx", "json_object_get", "json_object_object_get") and 0 in args_t and i.res and i.res not in regs:
                        regs.add(i.res)
                        changed = True
                    if i.callee == "json_object_object_get_ex" and 0 in args_t:
                        sp = P.path(i.ops[2])
                        if sp not in slots:
                            slots.add(sp)
                            changed = True
                    g = fns.get(i.callee)
                    if g is not None and args_t:
                        gr, gs = taint.setdefault(g.name, (set(), set()))
                        for k in args_t:
                            pn = g.params[k][1]
                            if pn not in gr:
                                gr.add(pn)
                                if g not in work:
                                    work.append(g)
                elif i.op == "load" and i.res not in regs and P.path(i.ops[0]) in slots:
                    regs.add(i.res)
                    changed = True
                elif i.op in ("bitcast", "phi", "select") and i.res not in regs and any(o.kind == "reg" and o.v in regs for o in i.ops):
                    regs.add(i.res)
                    changed = True
    return taint


def r3(chk, prog, m):
    rid = "C13.R3"
    chk.rule(rid, "no node derived from the patch document is the container argument of a mutating API (the patch is read-only)")
    taint = _patch_taint(prog, m)
    n = 0
    for f in _fns(m):
        regs, slots = taint.get(f.name, (set(), set()))
        for i in f.instrs():
            if i.op != "call" or i.callee not in MUTATORS:
                continue
            n += 1
            chk.touched(f)
            k = MUTATORS[i.callee]
            a = i.ops[k]
            P = Paths(f, prog)
            sig = "%s(%s)" % (i.callee, P.path(a))
            if a.kind == "reg" and a.v in regs and not (i.callee == "json_object_put" and _balanced_put(f, i, regs)):
                chk.refuted(rid, f.name, sig, i.locstr(), "a node of the patch document is modified by %s" % i.callee, {"call": i.raw})
            else:
                chk.proven(rid, f.name, sig, i.locstr(), "container argument does not derive from the patch document" if not (a.kind == "reg" and a.v in regs)
                           else "release balances a reference taken on the same value in this function")
    chk.floor(rid, n, 6, "mutator call sites in json_patch.c")
    chk.tables["patch_taint"] = {k: sorted(v[0]) for k, v in taint.items()}


def _balanced_put(f, put, regs):
    """put(x) where the same function earlier did get(x) (reference taken for a set, released on failure)"""
    P = Paths(f, None)
    for i in f.instrs():
        if i.op == "call" and i.callee == "json_object_get" and i.ops[0].kind == "reg" and put.ops[0].kind == "reg":
            if P.path(i.ops[0]) == P.path(put.ops[0]) and cfg_of(f).dominates(i, put):
                return True
    return False


def _origin(f, P, v, depth=0):
    """classify where a node value comes from: ('deepcopy'|'patch'|'target'|'other', description)"""
    if v.kind != "reg" or depth > 10:
        return "other", repr(v)
    d = f.defs.get(v.v)
    if d is None:
        return "param", v.v
    if d.op in ("bitcast",):
        return _origin(f, P, d.ops[0], depth + 1)
    if d.op == "call" and d.callee == "json_object_get":
        return _origin(f, P, d.ops[0], depth + 1)
    if d.op == "load":
        slot = P.path(d.ops[0])
        # who writes the slot?
        for i in f.instrs():
            if i.op == "call" and i.callee:
                for k, a in enumerate(i.ops):
                    if a.kind == "reg" and (P.path(a) == slot or slot.startswith(P.path(a) + ".")):
                        if i.callee == "json_object_deep_copy" and k == 1:
                            return "deepcopy", slot
                        if i.callee == "json_object_object_get_ex" and k == 2:
                            return "patch", "member %s of the patch operation" % _member_name(f, i)
                        if i.callee in ("json_pointer_get_internal", "json_pointer_get") and k == 2:
                            return "target", "node resolved in the target document (%s)" % slot
        return "other", slot
    return "other", d.raw


def r4(chk, prog, m):
    rid = "C13.R4"
    chk.rule(rid, "a node taken from the patch document (add/replace 'value') or from another location of the target (copy) "
                  "passes through json_object_deep_copy before it is set; move (delete first) is exempt")
    n = 0
    ar = m.functions["json_patch_apply_add_replace"]
    P = Paths(ar, prog)
    for c in ar.instrs():
        if c.op == "call" and c.callee in SETTERS_VALUE_ARG:
            n += 1
            chk.touched(ar)
            kind, desc = _origin(ar, P, c.ops[SETTERS_VALUE_ARG[c.callee]])
            sig = "%s value <- %s" % (c.callee, kind)
            if kind == "deepcopy":
                chk.proven(rid, ar.name, sig, c.locstr(), "value is a deep copy")
            elif kind == "patch":
                chk.refuted(rid, ar.name, sig, c.locstr(),
                            "add/replace stores the patch document's own node (%s) into the target: the target and the patch now "
                            "share it, so a later operation on that location modifies the patch document (and vice versa)" % desc,
                            {"call": c.raw})
            else:
                chk.undecided(rid, ar.name, sig, c.locstr(), "origin of the value not classified: %s" % desc)
    mc = m.functions["json_patch_apply_move_copy"]
    P = Paths(mc, prog)
    for flag, nm in ((0, "copy"), (1, "move")):
        calls = _calls_under_param(prog, mc, 3, flag)
        for c in calls:
            if c.callee in SETTERS_VALUE_ARG:
                n += 1
                chk.touched(mc)
                kind, desc = _origin(mc, P, c.ops[SETTERS_VALUE_ARG[c.callee]])
                removed = any(x.callee == "__json_patch_apply_remove" and _must_precede(mc, x, c, _calls_under_param.removed) for x in calls)
                sig = "%s (%s) value <- %s" % (c.callee, nm, kind)
                if kind == "deepcopy" or (flag == 1 and removed):
                    chk.proven(rid, mc.name, sig, c.locstr(), "deep copy" if kind == "deepcopy" else "move: the node is detached from its old location before it is set")
                elif kind == "target":
                    chk.refuted(rid, mc.name, sig, c.locstr(),
                                "copy stores the very node found at 'from' (%s) at 'path' without copying it: both locations now share one "
                                "node, so a later operation on one location changes the other" % desc, {"call": c.raw})
                else:
                    chk.undecided(rid, mc.name, sig, c.locstr(), "origin of the value not classified: %s" % desc)
    chk.floor(rid, n, 3, "set call sites in the add/replace/move/copy handlers")


def r5(chk, prog, m):
    own.rule_leaks(chk, prog, "C13.R5", only_functions={f.name for f in _fns(m)}, floor=2)


def _derives_from_param(f, v, pname, depth=0):
    if v.kind != "reg" or depth > 12:
        return False
    if v.v == pname:
        return True
    d = f.defs.get(v.v)
    if d is None:
        return False
    if d.op in ("getelementptr", "bitcast", "phi", "select", "inttoptr", "ptrtoint", "add", "sub"):
        return any(_derives_from_param(f, o, pname, depth + 1) for o in d.ops)
    return False


def r6(chk, prog, m):
    rid = "C13.R6"
    from . import c12
    jp = prog.module("json_pointer.c")
    chk.require(jp is not None, "json_pointer.c not in the build")
    # the script answers pointer resolution with a key that points into the caller's pointer string (escaped form); that is what
    # json_pointer.c does when some function stores a value derived from its string parameter into key_in_parent
    escaped_sources = []
    for f in [g for g in jp.functions.values() if not g.is_decl]:
        P = Paths(f, prog)
        for i in f.instrs():
            if i.op == "store" and P.path(i.ops[1]).endswith("key_in_parent") and i.ops[0].kind == "reg":
                for t, pn in f.params:
                    if t == "i8*" and pn and _derives_from_param(f, i.ops[0], pn):
                        escaped_sources.append((f, i, pn))
    if not escaped_sources:
        chk.rule(rid, "member names used by remove / move are the RFC 6901 decoding of the last reference token")
        chk.undecided(rid, "json_pointer.c", "key recorded by pointer resolution", "json_pointer.c:1:1",
                      "no store of a value derived from the pointer string into key_in_parent was found: what the recorded key holds "
                      "(escaped or decoded token) is not established, so the member names of remove / move are not decided")
        return
    nf, n = c12.r8(chk, prog, m, rid)
    chk.floor(rid, nf, 1, "functions of json_patch.c that hand a member name to the object API")


# ---------------------------------------------------------------------------
# R7 the from / path overlap guard of move and copy
class _OverlapPE(StrPE):
    def __init__(self, prog, frm, path):
        super().__init__(prog, max_leaves=50, max_steps=50000)
        self.frm, self.pth = frm, path
        self.loop_widen = 1000
        self.max_visits = 64

    def should_inline(self, g, instr):
        return False

    def init_mem(self, state, base, path, t):
        for nm, data in (("fromstr", self.frm), ("pathstr", self.pth)):
            if base == nm:
                el, fl = pe.fields_of(path)
                if not fl and isinstance(el, int) and 0 <= el <= len(data):
                    b = (data + b"\0")[el]
                    return pe.C(b if b < 128 else b - 256)
        return pe.TOP

    def call_model(self, state, frame, i, args):
        nm = i.callee
        if nm == "json_object_object_get_ex":
            if len(args) > 2 and args[2][0] == "ptr":
                self.store(state, args[2], ("ptr", "jfrom", ()))
            return pe.C(1)
        if nm == "json_object_get_string":
            return ("ptr", "fromstr", ())
        if nm == "__errno_location":
            return ("ptr", "errno", ())
        if nm in ("json_pointer_get_internal", "json_pointer_get"):
            state.trace.append(("proceed",))
            return "STOP"
        r = self.libc_string_model(state, frame, i, args)
        if r is not None:
            return r
        if nm in ("strncmp", "strcmp", "memcmp"):
            a, b = self._cstr(state, args[0]), self._cstr(state, args[1])
            if a is None or b is None:
                return None
            if nm != "strcmp":
                if not pe.is_const(args[2]):
                    return None
                a, b = a[:args[2][1]], b[:args[2][1]]
            return pe.C((a > b) - (a < b))
        return None

    def _call(self, stack, block, i, state, nextidx):
        r = super()._call(stack, block, i, state, nextidx)
        if r == [] and state.trace and state.trace[-1] == ("proceed",):
            self.proceeded = True
        return r


def _tokens(p):
    return p.split(b"/")[1:] if p else []


def r7(chk, prog, m):
    from itertools import product
    rid = "C13.R7"
    chk.rule(rid, "overlap of from and path in move / copy, decided on every pair of pointers of up to 4 characters over '/', 'a', 'b' by "
                  "partial evaluation of the operation up to the lookup of from: equal locations are a no-op; when from is a proper "
                  "prefix of path by reference tokens, move is refused and copy does not store the node by reference below itself; in "
                  "every other case (including names that merely share leading characters, /a and /ab) the operation goes on")
    f = m.functions.get("json_patch_apply_move_copy")
    chk.require(f is not None and not f.is_decl, "json_patch_apply_move_copy not found")
    chk.touched(f)
    # does copy store the found node itself (by reference)?  then storing it below itself would make the document cyclic
    P = Paths(f, prog)
    by_ref = not any(i.op == "call" and i.callee == "json_object_deep_copy" for i in f.instrs())
    ptrs = [b""]
    for ln in range(1, 5):
        for t in product(b"/ab", repeat=ln):
            s = bytes(t)
            if s.startswith(b"/"):
                ptrs.append(s)
    n = 0
    bad = {}
    for move in (1, 0):
        for frm in ptrs:
            for pth in ptrs:
                h = _OverlapPE(prog, frm, pth)
                h.proceeded = False
                leaves = h.run(f, [("ptr", "res", ()), ("ptr", "elem", ()), ("ptr", "pathstr", ()), pe.C(move), ("ptr", "perr", ())], pe.State())
                n += 1
                outs = set()
                if h.proceeded:
                    outs.add("proceed")
                for lf in leaves:
                    if lf.kind == "ret" and lf.value is not None and pe.is_const(lf.value):
                        outs.add("noop" if lf.value[1] == 0 else "refuse")
                    elif lf.kind != "ret":
                        outs.add("?")
                tf, tp = _tokens(frm), _tokens(pth)
                if frm == pth:
                    want = {"noop"}
                    cls = "equal locations"
                elif len(tf) < len(tp) and tp[:len(tf)] == tf:
                    cls = "from is a proper prefix of path (%s)" % ("move" if move else "copy")
                    want = {"refuse"} if (move or by_ref) else {"proceed"}
                else:
                    cls = "no overlap by reference tokens (%s)" % ("move" if move else "copy")
                    want = {"proceed"}
                if outs != want and cls not in bad:
                    bad[cls] = (frm, pth, move, outs, want)
    for cls in ("equal locations", "from is a proper prefix of path (move)", "from is a proper prefix of path (copy)",
                "no overlap by reference tokens (move)", "no overlap by reference tokens (copy)"):
        if cls in bad:
            frm, pth, move, outs, want = bad[cls]
            chk.refuted(rid, f.name, cls, f.entry.term.locstr(),
                        "%s from %r to %r: the operation %s, RFC 6902 (with the found node stored %s) requires it to %s"
                        % ("move" if move else "copy", frm.decode(), pth.decode(), "/".join(sorted(outs)) or "does nothing recognisable",
                           "by reference" if by_ref else "as a copy", "/".join(sorted(want))),
                        {"from": frm.decode(), "path": pth.decode(), "move": move})
        else:
            chk.proven(rid, f.name, cls, f.entry.term.locstr(), "as required on every pair")
    if by_ref:
        chk.note("copy stores the node found at 'from' by reference (known finding F5), so copy into a descendant of 'from' is refused "
                 "rather than performed; RFC 6902 section 4.5 would allow it with an independent copy")
    chk.floor(rid, n, 3000, "(from, path, move/copy) evaluations")


# ---------------------------------------------------------------------------
# R8 the caller's root slot follows every change of the root
def r8_root_slot(chk, prog, m):
    from ..heapuse import reach_avoiding
    rid = "C13.R8"
    chk.rule(rid, "an operation that replaces or removes the root does so in the caller's slot (*base): the operation handlers are given "
                  "base itself, or - if json_patch_apply works on a local copy of the root - every return reachable after a handler "
                  "call is preceded by a write of that copy back to *base (otherwise an early return leaves *base on a released root)")
    f = m.functions.get("json_patch_apply")
    chk.require(f is not None and not f.is_decl, "json_patch_apply not found")
    chk.touched(f)
    P = Paths(f, prog)
    basep = None
    for t, nm in f.params:
        if t == "%struct.json_object**":
            basep = nm
    chk.require(basep is not None, "json_patch_apply has no json_object** parameter")
    handlers = [i for i in f.instrs() if i.op == "call" and i.callee and i.callee.startswith("json_patch_apply_") and i.ops
                and (i.ops[0].type or "").endswith("json_object**")]
    if not handlers:
        chk.undecided(rid, f.name, "root slot", f.entry.term.locstr(), "no call of an operation handler with a root slot argument found")
        return
    n = 0
    bad = None
    for c in handlers:
        n += 1
        a = c.ops[0]
        if a.kind == "reg" and a.v == basep:
            continue
        w = reach_avoiding(f, c, lambda x: x.op == "ret", lambda x: x.op == "store" and P.path(x.ops[1]) == basep)
        if w is not None and bad is None:
            trail, ret = w
            bad = (c, "%s works on %s, a copy of the root, and the function can return at %s (via %s) without writing it back to *%s: "
                      "after an operation has replaced or removed the root, the caller is left with a pointer to the released one"
                   % (c.callee, P.path(a), ret.locstr(), " -> ".join(trail[-3:]), basep))
    if bad:
        chk.refuted(rid, f.name, "root slot", bad[0].locstr(), bad[1])
    else:
        chk.proven(rid, f.name, "root slot", handlers[0].locstr(), "%d handler calls work on the caller's slot (or the copy is written back on every path)" % n)
    chk.floor(rid, n, 3, "operation handler calls")
