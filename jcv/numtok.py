"""Number tokens made transparent: the tokener's number state explored together with an exact summary of the saved text.

The general automaton (jcv.tokauto) treats a number token as opaque.  Here every (parser configuration, canonical token text)
pair reachable while a number is being read is explored, one byte per call, with the token buffer modelled concretely:

* the saved text is kept in a canonical form that preserves everything the code or libc can observe: the first and last
  characters, the position of 'e' / 'E' relative to the end, RFC validity, the sign, whether the integer part is zero / has a
  superfluous leading zero, and "length 0 / 1 / >= 2".  Digit runs are collapsed: the integer part to one of
  0, 00, 05, 5, 55; every other run to 5.
* printbuf_reset / printbuf_memappend update the modelled buffer; strchr is evaluated on it; strtoll / strtoull / strtod follow
  their ISO C contracts on it (longest valid prefix, end pointer, zero / in-range / out-of-range result with ERANGE), where a
  collapsed multi-digit run may denote an in-range or an out-of-range value (both are explored).

One step is a whole call json_tokener_parse_ex(tok, &byte, 1), as in jcv.tokauto.
"""
import re

from . import pe, tokauto
from .tokauto import TokPE, Table
from .frontend import AnalysisBroken
from .strpe import StrPE

TEXT_FUNCS = ("strlen", "strrchr", "memchr", "strpbrk", "strspn", "strcspn", "strstr", "strcmp", "strncmp")
ERANGE = 34
I64_MAX, I64_MIN = (1 << 63) - 1, -(1 << 63)
# calls that receive the token buffer and are modelled (or are known not to look at its content)
KNOWN_CALLS = ("printbuf_reset", "printbuf_memappend", "json_object_new_double_s", "json_object_new_string_len", "strdup",
               "json_object_new_string", "printbuf_free", "printbuf_memset", "sprintbuf")

RFC_NUMBER = re.compile(rb"-?(0|[1-9][0-9]*)(\.[0-9]+)?([eE][+-]?[0-9]+)?\Z")
RFC_PREFIX = re.compile(rb"-?((0|[1-9][0-9]*)((\.[0-9]*)?([eE]([+-]?[0-9]*)?)?)?)?\Z")
STRTOD = re.compile(rb"[ \t\n\v\f\r]*[+-]?([0-9]+\.?[0-9]*|\.[0-9]+)([eE][+-]?[0-9]+)?")
STRTOL = re.compile(rb"[ \t\n\v\f\r]*[+-]?[0-9]+")

# byte classes that the summary distinguishes; the remaining bytes are split lazily by the code's own comparisons
CLASSES = [("0", [0x30]), ("1-9", list(range(0x31, 0x3A))), ("-", [0x2D]), ("+", [0x2B]), (".", [0x2E]), ("e", [0x65]), ("E", [0x45])]
REP = {0x30: 0x30, 0x2D: 0x2D, 0x2B: 0x2B, 0x2E: 0x2E, 0x65: 0x65, 0x45: 0x45}
for _d in range(0x31, 0x3A):
    REP[_d] = 0x35


class Alphabet:
    def __init__(self, name, classes, rep, entry, states, canon, maxtext):
        self.name, self.classes, self.rep, self.entry, self.states, self.canon, self.maxtext = name, classes, rep, entry, states, canon, maxtext


def canon_text(t):
    """canonical representative of a saved number text (see module docstring)"""
    out = bytearray()
    i = 0
    n = len(t)
    if i < n and t[i] == 0x2D:
        out.append(0x2D)
        i += 1
    first_run = True
    while i < n:
        c = t[i]
        if 0x30 <= c <= 0x39:
            j = i
            while j < n and 0x30 <= t[j] <= 0x39:
                j += 1
            run = t[i:j]
            if first_run and (i == 0 or (i == 1 and t[0] == 0x2D)):
                if all(x == 0x30 for x in run):
                    out += b"0" if len(run) == 1 else b"00"
                elif run[0] == 0x30:
                    out += b"05"
                else:
                    out += b"5" if len(run) == 1 else b"55"
            else:
                out += b"5"
            i = j
        else:
            out.append(c)
            i += 1
        first_run = False
    return bytes(out)


LIT_LETTERS = sorted(set(b"nulltruefalseNaNinfinity") | set(b"nulltruefalseNaNinfinity".upper()) | set(b"nulltruefalsenaninfinity"))
NUM_ALPHA = Alphabet("number", CLASSES, REP, ("0", "1-9", "-"), ("number",), canon_text, 12)
LIT_ALPHA = Alphabet("literal", [(chr(b), [b]) for b in LIT_LETTERS], {b: b for b in LIT_LETTERS},
                     tuple(chr(b) for b in b"ntfNTF"), ("null", "boolean"), (lambda t: t), 10)


class NumPE(TokPE, StrPE):
    def __init__(self, prog, fields, sfields, cfg, flags, max_depth, length, byte_domain, text, pbf, rep=None):
        TokPE.__init__(self, prog, fields, sfields, cfg, flags, max_depth, length, byte_domain)
        self.rep = rep if rep is not None else REP
        self.text = text            # bytes, or None when no number text is being tracked (buffer unknown)
        self.PB = pbf
        self.fn_module = prog.module("json_tokener.c")

    def should_inline(self, g, instr):
        if g.name in ("json_parse_int64", "json_parse_uint64"):
            return True
        if g.internal and g.module is self.fn_module:
            return True           # helpers of the tokener itself (conversion wrapper, syntax checks) are followed
        return TokPE.should_inline(self, g, instr)

    # -- the token buffer --------------------------------------------------------------------
    def init_mem(self, state, base, path, t):
        if base == "pb":
            el, fl = pe.fields_of(path)
            k = fl[0] if fl else 0
            if el == 0 and len(fl) <= 1:
                if k == self.PB["buf"]:
                    return ("ptr", "pbbuf", ())
                if k == self.PB["bpos"]:
                    return pe.C(len(self.text)) if self.text is not None else pe.TOP
                if k == self.PB["size"]:
                    return pe.C(1 << 20)
            return pe.TOP
        if base == "pbbuf":
            if self.text is None:
                return pe.TOP
            el, fl = pe.fields_of(path)
            if not fl and isinstance(el, int):
                if 0 <= el < len(self.text):
                    b = self.text[el]
                    return pe.C(b if b < 128 else b - 256)
                if el == len(self.text):
                    return pe.C(0)
            return pe.TOP
        return TokPE.init_mem(self, state, base, path, t)

    def _bpos(self, state):
        v = self.load(state, ("ptr", "pb", (("i", 0), self.PB["bpos"])), "i32")
        return v[1] if pe.is_const(v) else None

    def current_text(self, state, env=None):
        """the modelled buffer content as bytes (roots replaced by their class representative), or None"""
        n = self._bpos(state)
        if n is None or n < 0 or n > 64:
            return None
        out = bytearray()
        for k in range(n):
            v = self.load(state, ("ptr", "pbbuf", (("i", k),)), "i8")
            if pe.is_const(v):
                out.append(v[1] % 256)
                continue
            if pe.has_top(v):
                return None
            vs = state.values(v)
            if not vs:
                return None
            reps = {self.rep.get(x % 256, x % 256) for x in vs}
            if len(reps) != 1:
                return None
            out.append(next(iter(reps)))
        return bytes(out)

    def _lit(self, state, a):
        return self._cstr(state, a) if a[0] == "ptr" else None

    def _text_func(self, state, nm, s, args):
        """ISO C string functions evaluated on the modelled token text s (bytes up to, not including, the terminator)"""
        if nm == "strlen":
            return pe.C(len(s))
        if nm == "strrchr":
            if not pe.is_const(args[1]):
                return None
            k = (s + b"\0").rfind(bytes([args[1][1] % 256]))
            return self._at(args[0], k) if k >= 0 else pe.C(0)
        if nm == "memchr":
            if not pe.is_const(args[1]) or not pe.is_const(args[2]):
                return None
            k = (s + b"\0")[:args[2][1]].find(bytes([args[1][1] % 256]))
            return self._at(args[0], k) if k >= 0 else pe.C(0)
        if nm in ("strpbrk", "strspn", "strcspn", "strstr", "strcmp", "strncmp"):
            lit = self._lit(state, args[1])
            if lit is None:
                return None
            if nm == "strpbrk":
                ks = [k for k, c in enumerate(s) if c in lit]
                return self._at(args[0], ks[0]) if ks else pe.C(0)
            if nm == "strspn":
                k = 0
                while k < len(s) and s[k] in lit:
                    k += 1
                return pe.C(k)
            if nm == "strcspn":
                k = 0
                while k < len(s) and s[k] not in lit:
                    k += 1
                return pe.C(k)
            if nm == "strstr":
                k = s.find(lit)
                return self._at(args[0], k) if k >= 0 else pe.C(0)
            if nm == "strcmp":
                return pe.C((s > lit) - (s < lit))
            if nm == "strncmp":
                if not pe.is_const(args[2]):
                    return None
                a, b = s[:args[2][1]], lit[:args[2][1]]
                return pe.C((a > b) - (a < b))
        return None

    def _text_sets(self, state):
        """per position: the set of byte values the modelled buffer may hold there (exact), or None"""
        n = self._bpos(state)
        if n is None or n < 0 or n > 64:
            return None
        out = []
        for k in range(n):
            v = self.load(state, ("ptr", "pbbuf", (("i", k),)) if k else ("ptr", "pbbuf", ()), "i8")
            if pe.is_const(v):
                out.append({v[1] % 256})
                continue
            if pe.has_top(v):
                return None
            vs = state.values(v, cap=300)
            if not vs:
                return None
            out.append({x % 256 for x in vs})
        return out

    def _compare_symbolic(self, state, nm, args):
        """str(n)(case)cmp with the token buffer on one side when some position holds a whole class of bytes: the result
        is a constant when every member of the class gives the same result, an unknown non-zero value when none gives
        zero; otherwise undecided here"""
        from itertools import product as iproduct
        sets = self._text_sets(state)
        if sets is None or all(len(x) == 1 for x in sets):
            return None
        if sum(1 for x in sets if len(x) > 1) != 1:
            return None
        a, b = args[0], args[1]
        which = 0 if (a[0] == "ptr" and a[1] == "pbbuf") else 1
        p = (a if which == 0 else b)[2]
        off = 0
        if p:
            off = p[-1][1] if isinstance(p[-1], tuple) and p[-1][0] == "i" and isinstance(p[-1][1], int) else None
        lit = self._lit(state, b if which == 0 else a)
        if off is None or lit is None:
            return None
        n = None
        if nm.startswith("strn"):
            if not pe.is_const(args[2]):
                return None
            n = args[2][1]
        results = set()
        for combo in iproduct(*[sorted(x) for x in sets]):
            t = bytes(combo)[off:]
            x, y = (t, lit) if which == 0 else (lit, t)
            if n is not None:
                x, y = x[:n], y[:n]
            if "case" in nm:
                x, y = x.lower(), y.lower()
            results.add((x > y) - (x < y))
        if len(results) == 1:
            return pe.C(next(iter(results)))
        if 0 not in results:
            return self.fresh_root(state, "cmp", sorted(results))
        return None

    def call_model(self, state, frame, i, args):
        nm = i.callee
        PB = self.PB
        if nm == "printbuf_reset" and args and args[0][0] == "ptr" and args[0][1] == "pb":
            state.trace.append(("call", nm, tuple(args), i))
            self.store(state, ("ptr", "pb", (("i", 0), PB["bpos"])), pe.C(0))
            self.store(state, ("ptr", "pbbuf", ()), pe.C(0))
            self.tracking = True
            return pe.C(0)
        if nm == "printbuf_memappend" and args and args[0][0] == "ptr" and args[0][1] == "pb":
            state.trace.append(("call", nm, tuple(args), i))
            n = args[2][1] if pe.is_const(args[2]) else None
            pos = self._bpos(state)
            if n is None or pos is None or args[1][0] != "ptr" or n < 0 or n > 8:
                self.store(state, ("ptr", "pb", (("i", 0), PB["bpos"])), pe.TOP)
                return pe.C(n if n is not None else 1)
            for k in range(n):
                v = self.load(state, self._at(args[1], k), "i8")
                self.store(state, ("ptr", "pbbuf", (("i", pos + k),)) if pos + k else ("ptr", "pbbuf", ()), v)
            self.store(state, ("ptr", "pbbuf", (("i", pos + n),)) if pos + n else ("ptr", "pbbuf", ()), pe.C(0))
            self.store(state, ("ptr", "pb", (("i", 0), PB["bpos"])), pe.C(pos + n))
            return pe.C(n)
        if nm in ("strncmp", "strcmp", "strncasecmp", "strcasecmp") and len(args) >= 2 and \
                any(a[0] == "ptr" and a[1] == "pbbuf" for a in args[:2]):
            res = self._compare_symbolic(state, nm, args)
            if res is not None:
                return res
            sides = []
            for a in args[:2]:
                if a[0] == "ptr" and a[1] == "pbbuf":
                    full = self.current_text(state)
                    p = a[2]
                    off = 0
                    if p:
                        off = p[-1][1] if isinstance(p[-1], tuple) and p[-1][0] == "i" and isinstance(p[-1][1], int) else None
                    sides.append(full[off:] if full is not None and off is not None and off <= len(full) else None)
                else:
                    sides.append(self._lit(state, a))
            n = None
            if nm.startswith("strn"):
                n = args[2][1] if pe.is_const(args[2]) else -1
            if sides[0] is None or sides[1] is None or n == -1:
                state.trace.append(("opaque_text", nm))
                return None
            x, y = sides
            if n is not None:
                x, y = x[:n], y[:n]
            if "case" in nm:
                x, y = x.lower(), y.lower()
            return pe.C((x > y) - (x < y))
        if nm in TEXT_FUNCS and args and args[0][0] == "ptr" and args[0][1] == "pbbuf":
            full = self.current_text(state)
            p = args[0][2]
            off = 0
            if p:
                off = p[-1][1] if isinstance(p[-1], tuple) and p[-1][0] == "i" and isinstance(p[-1][1], int) else None
            if full is not None and off is not None and off <= len(full):
                r = self._text_func(state, nm, full[off:], args)
                if r is not None:
                    return r
            state.trace.append(("opaque_text", nm))
            return None
        if nm in ("strtoll", "strtoull", "strtod", "strchr") and args and args[0][0] == "ptr" and args[0][1] == "pbbuf":
            # the text from the pointer on
            full = self.current_text(state)
            off = 0
            p = args[0][2]
            if p:
                off = p[-1][1] if isinstance(p[-1], tuple) and p[-1][0] == "i" and isinstance(p[-1][1], int) else None
            if full is None or off is None or off > len(full):
                return None
            s = full[off:]
            if nm == "strchr":
                if not pe.is_const(args[1]):
                    return None
                k = (s + b"\0").find(bytes([args[1][1] % 256]))
                return self._at(args[0], k) if k >= 0 else pe.C(0)
            if nm == "strtod":
                m = STRTOD.match(s)
                ln = m.end() if m else 0
                if args[1][0] == "ptr":
                    self.store(state, args[1], self._at(args[0], ln))
                state.trace.append(("conv", "strtod", s, ln))
                return pe.TOP
            m = STRTOL.match(s)
            if not m:
                if args[1][0] == "ptr":
                    self.store(state, args[1], args[0])
                state.trace.append(("conv", nm, s, 0))
                return pe.C(0)
            ln = m.end()
            if args[1][0] == "ptr":
                self.store(state, args[1], self._at(args[0], ln))
            tok = m.group(0).strip()
            neg = tok.startswith(b"-")
            digits = tok.lstrip(b"+-")
            state.trace.append(("conv", nm, s, ln))
            if all(d == 0x30 for d in digits):
                return pe.C(0)
            errno_loc = ("ptr", "errno", ())
            old_errno = self.load(state, errno_loc, "i32")
            if old_errno == pe.TOP:
                old_errno = pe.C(0)
            if nm == "strtoll":
                small = pe.C(-5 if neg else 5)
                if len(digits) == 1:
                    return small
                r = self.fresh_root(state, "range", [0, 1])           # 0 in range, 1 out of range (ERANGE, saturated)
                cond = pe.mk("icmp.eq", "i1", r, pe.C(1), 32)
                self.store(state, errno_loc, pe.mk("select", "i32", cond, pe.C(ERANGE), old_errno))
                return pe.mk("select", "i64", cond, pe.C(I64_MIN if neg else I64_MAX), small)
            # strtoull
            if len(digits) == 1:
                return pe.C(5)
            r = self.fresh_root(state, "urange", [0, 1, 2])          # 0 <= INT64_MAX, 1 above INT64_MAX, 2 out of range
            c1 = pe.mk("icmp.eq", "i1", r, pe.C(1), 32)
            c2 = pe.mk("icmp.eq", "i1", r, pe.C(2), 32)
            self.store(state, errno_loc, pe.mk("select", "i32", c2, pe.C(ERANGE), old_errno))
            return pe.mk("select", "i64", c2, pe.C(-1), pe.mk("select", "i64", c1, pe.C(I64_MIN), pe.C(5)))
        if nm == "__ctype_b_loc":
            return ("ptr", "ctypeloc", ())
        return TokPE.call_model(self, state, frame, i, args)


class NOutcome(tokauto.Outcome):
    pass


class NumTable(Table):
    """steps of the tokener with the token buffer modelled; nodes are (configuration, canonical text or None)"""

    def __init__(self, prog, flags, max_depth, alpha=None):
        Table.__init__(self, prog, flags, max_depth)
        self.alpha = alpha or NUM_ALPHA
        self.TRACKED = {self.states.get("json_tokener_state_" + n) for n in self.alpha.states}
        m = prog.module("printbuf.c") or prog.module("json_tokener.c")
        pf = prog.module("json_tokener.c").struct_fields("%struct.printbuf")
        if not pf or "bpos" not in pf or "buf" not in pf:
            raise AnalysisBroken("struct printbuf layout not found in debug info")
        self.PB = {n: k for k, n in enumerate(pf)}
        self.NUMBER = self.states.get("json_tokener_state_number")
        if self.NUMBER is None:
            raise AnalysisBroken("json_tokener_state_number not found")

    def nstep(self, cfg, text, byte_domain, length=1, second=None):
        """outcomes of one call from (cfg, text) for input bytes in byte_domain; each outcome carries .text (canonical text
        after the call, None when the buffer is no longer a tracked number text) and .ranges (conversion range roots)"""
        h = NumPE(self.prog, self.F, self.S, cfg, self.flags, self.max_depth, length, byte_domain, text, self.PB, self.alpha.rep)
        h.deadline = getattr(self, "deadline", None)
        h.depth_oob = None
        if second is not None:
            h.byte_domain2 = second
        st = pe.State()
        args = [("ptr", "tok", ()), ("ptr", "input", ()), pe.C(length)]
        leaves = h.run(self.fn, args, st)
        self.stats["leaves"] += len(leaves)
        self.stats["steps"] += h.steps
        leaves = self._split_on_tracked(leaves)
        outs = []
        for lf in leaves:
            if lf.kind != "ret":
                raise AnalysisBroken("number walk ended with %s (%s, text %r)" % (lf.kind, self.cfg_str(cfg), text))
            s = lf.state
            o = NOutcome()
            o.bytes = frozenset(s.roots.get("c", frozenset(byte_domain)))
            o.bytes1 = frozenset(s.roots["c1"]) if "c1" in s.roots else None
            o.err = self._const(s, self.tokloc(self.F["err"]), 0)
            o.ret_nonnull = None if lf.value is None else (lf.value[0] == "ptr") if lf.value[0] in ("ptr", "c") else None
            o.consumed = self._const(s, self.tokloc(self.F["char_offset"]), 0)
            o.next = self._next_config(s, cfg)
            o.calls = [e[1] for e in s.trace if e[0] == "call"]
            o.callargs = [(e[1], tuple(a[1] if pe.is_const(a) else None for a in e[2])) for e in s.trace if e[0] == "call"]
            o.appends = []
            o.lookahead = any(e[0] == "lookahead" for e in s.trace)
            o.stores = None
            o.gloads, o.pbstores, o.reads, o.field_reads, o.field_writes, o.tail = [], 0, 0, [], [], ()
            t = h.current_text(s)
            o.text = self.alpha.canon(t) if t is not None else None
            o.rawtext = t
            o.ranges = {r: sorted(s.roots[r]) for r in s.roots if r.startswith("range#") or r.startswith("urange#")}
            o.conv = [e[1:] for e in s.trace if e[0] == "conv"]
            o.opaque = sorted({e[1] for e in s.trace if e[0] == "opaque_text"} |
                              {e[1] for e in s.trace if e[0] == "call" and e[1] not in KNOWN_CALLS and
                               any(isinstance(a, tuple) and a and a[0] == "ptr" and a[1] in ("pbbuf", "pb") for a in e[2])})
            outs.append(o)
        return outs

    def top_state(self, cfg):
        return cfg[1][cfg[0]][0]


def number_entries(T, states=("number",)):
    """configurations of the general automaton from which some byte starts a token read in one of the given states"""
    S = {T.states.get("json_tokener_state_" + n) for n in states}
    out = []
    for cfg, outs in T.trans.items():
        for o in outs:
            if o.next is not None and o.err in (0, 1) and o.next[1][o.next[0]][0] in S and cfg[1][cfg[0]][0] not in S:
                out.append(cfg)
                break
    return out


_W = {}


def _worker_init(prog, flags, max_depth, budget_s, alpha=None):
    import time
    NT = NumTable(prog, flags, max_depth, alpha)
    NT.deadline = time.time() + budget_s
    _W["NT"] = NT


def _worker_step(task):
    cfg, text, cname, dom, length = task
    NT = _W["NT"]
    try:
        outs = NT.nstep(cfg, text, dom, length)
    except AnalysisBroken as e:
        return (task, None, str(e))
    return (task, outs, None)


MAXTEXT = 12


def explore(prog, flags, max_depth, entries, limit=5000, budget_s=900, jobs=None, alpha=None):
    """all (configuration, text) nodes reachable while a number is being read, starting from the given entry configurations.
    returns (NT, nodes: {node: [(classname, outcome)]}, parent: {node: (prev node, byte)}, truncated nodes)"""
    import time
    import multiprocessing as mp
    import os
    alpha = alpha or NUM_ALPHA
    NT = NumTable(prog, flags, max_depth, alpha)
    t0 = time.time()
    nodes = {}
    parent = {}
    truncated = []
    frontier = []
    for e in entries:
        n = (e, None)
        parent[n] = None
        frontier.append(n)
    rest = [b for b in range(-128, 128) if (b % 256) not in alpha.rep]
    jobs = jobs or min(16, os.cpu_count() or 1)
    ctx = mp.get_context("fork")
    pool = ctx.Pool(jobs, initializer=_worker_init, initargs=(prog, flags, max_depth, budget_s, alpha))
    try:
        while frontier:
            if len(nodes) + len(frontier) > limit:
                # breadth-first: everything explored so far is the short texts; the rest is reported as not followed
                truncated += frontier
                break
            if time.time() - t0 > budget_s:
                raise AnalysisBroken("number-token exploration exceeded its time budget (%d nodes)" % len(nodes))
            tasks = []
            for node in frontier:
                cfg, text = node
                in_number = NT.top_state(cfg) in NT.TRACKED
                for cname, bs in alpha.classes + [("other", rest)]:
                    if not in_number and cname not in alpha.entry:
                        continue         # from an entry configuration only the bytes that start such a token matter
                    tasks.append((cfg, text, cname, [b if b < 128 else b - 256 for b in bs], 1))
                nodes[node] = []
            nxt = []
            for task, outs, err in pool.imap_unordered(_worker_step, tasks, chunksize=4):
                if err is not None:
                    raise AnalysisBroken(err)
                cfg, text, cname, dom, _ = task
                node = (cfg, text)
                for o in outs:
                    nodes[node].append((cname, o))
                    if o.err in (0, 1) and o.next is not None and NT.top_state(o.next) in NT.TRACKED:
                        if o.text is None:
                            raise AnalysisBroken("token text lost in %s after %r + %s" % (NT.cfg_str(cfg), text, cname))
                        nn = (NT.canon(o.next), o.text)
                        o.next = nn[0]
                        if nn not in nodes and nn not in parent:
                            b0 = sorted(x % 256 for x in o.bytes)[0]
                            parent[nn] = (node, alpha.rep.get(b0, b0))
                            if len(o.text) > alpha.maxtext:
                                truncated.append(nn)
                            else:
                                nxt.append(nn)
            frontier = nxt
    finally:
        pool.terminate()
        pool.join()
    NT.stats["nodes"] = len(nodes)
    NT.stats["wall_s"] = round(time.time() - t0, 1)
    return NT, nodes, parent, truncated


def steps_parallel(prog, flags, max_depth, tasks, budget_s=900, jobs=None):
    """run a batch of (cfg, text, name, byte domain, length) walks in parallel; returns {task key: outcomes}"""
    import multiprocessing as mp
    import os
    jobs = jobs or min(16, os.cpu_count() or 1)
    ctx = mp.get_context("fork")
    pool = ctx.Pool(jobs, initializer=_worker_init, initargs=(prog, flags, max_depth, budget_s))
    out = {}
    try:
        for task, outs, err in pool.imap_unordered(_worker_step, tasks, chunksize=8):
            if err is not None:
                raise AnalysisBroken(err)
            out[(task[0], task[1], task[2])] = outs
    finally:
        pool.terminate()
        pool.join()
    return out


def witness(parent, node, last=None):
    """a concrete text (bytes) that drives the parser from an entry configuration to `node`"""
    out = []
    cur = node
    while parent.get(cur) is not None:
        prev, b = parent[cur]
        out.append(b)
        cur = prev
    out.reverse()
    if last is not None:
        out.append(last)
    return bytes(out)
