"""Reference automaton for RFC 8259, written from the grammar alone (no tokener vocabulary).

State = (position, stack) with stack a tuple of 'A' (array) / 'O' (object).
Positions:
  V    a value must start here (document start, after ':' , after ',' in an array)
  A0   just after '[' : value or ']'
  O0   just after '{' : member name or '}'
  OK   after ',' in an object: member name required
  K, KE, KU1..KU4   inside a member name / after '\\' / hex digits
  KC   after a member name: ':' required
  S, SE, SU1..SU4   inside a string value
  T    inside a literal or number token (opaque: its extent depends on the characters' values)
  AV   after a complete value
  plus, with ext=True (the documented json-c extensions): comment states C1 (after '/'), CB (block), CBS (block, after '*'),
  CL (line), each remembering the position to return to, and a quote character for single-quoted strings.

step(state, byte, ext) returns one of
  ('accept', next_state, kind)   kind None for RFC transitions, 'X1'..'X5' for an extension transition
  ('reject',)                    the byte cannot occur here
  ('opaque', next_state)         inside a literal/number: acceptance depends on the token's text
  ('may', next_state)            a literal/number ends here if it was complete: accept-or-reject both allowed
  ('depth',)                     a container would exceed the nesting limit
"""

WS = (0x20, 0x09, 0x0A, 0x0D)
DIGITS = tuple(range(0x30, 0x3A))
TOKEN_CHARS = set(DIGITS) | {ord(c) for c in "+-.eE"} | set(range(ord("a"), ord("z") + 1)) | set(range(ord("A"), ord("Z") + 1))
HEX = set(DIGITS) | set(range(ord("a"), ord("f") + 1)) | set(range(ord("A"), ord("F") + 1))
SIMPLE_ESC = {ord(c) for c in '"\\/bfnrt'}

INITIAL = ("V", ())


def _after_value(stack):
    return ("AV", stack)


def step(state, b, ext=False, max_depth=None, quote=None):
    pos, stack = state[0], state[1]
    q = state[2] if len(state) > 2 else 0x22
    # ---- comments (extension) --------------------------------------------------------------------
    if pos == "C1":
        ret = state[2]
        if b == 0x2A:
            return ("accept", ("CB", stack, ret), "X1")
        if b == 0x2F:
            return ("accept", ("CL", stack, ret), "X1")
        return ("reject",)
    if pos == "CB":
        ret = state[2]
        return ("accept", ("CBS" if b == 0x2A else "CB", stack, ret), "X1")
    if pos == "CBS":
        ret = state[2]
        if b == 0x2F:
            return ("accept", ret, "X1")
        # json-c quirk: a '*' that does not close the comment goes back to scanning for the next '*'
        return ("accept", ("CB", stack, ret), "X1")
    if pos == "CL":
        ret = state[2]
        if b == 0x0A:
            return ("accept", ret, "X1")
        return ("accept", ("CL", stack, ret), "X1")
    # ---- strings -------------------------------------------------------------------------------------
    if pos in ("S", "K"):
        if b == q:
            return ("accept", _after_value(stack) if pos == "S" else ("KC", stack), None)
        if b == 0x5C:
            return ("accept", (pos + "E", stack, q), None)
        if b <= 0x1F:
            if ext and b != 0:
                return ("accept", (pos, stack, q), "X5")
            return ("reject",)
        if b == 0x22 and q != 0x22:
            return ("accept", (pos, stack, q), "X2")     # a double quote inside a single-quoted string is ordinary text
        return ("accept", (pos, stack, q), None)
    if pos in ("SE", "KE"):
        base = pos[0]
        if b in SIMPLE_ESC:
            return ("accept", (base, stack, q), None)
        if b == ord("u"):
            return ("accept", (base + "U1", stack, q), None)
        return ("reject",)
    if pos[:2] in ("SU", "KU"):
        base = pos[0]
        n = int(pos[2])
        if b in HEX:
            return ("accept", ((base + "U%d" % (n + 1)) if n < 4 else base, stack, q), None)
        return ("reject",)
    # ---- whitespace / comment start where whitespace is allowed -------------------------------------
    if pos in ("V", "A0", "O0", "OK", "KC", "AV"):
        if b in WS:
            return ("accept", state, None)
        if b == 0x2F:
            if ext:
                return ("accept", ("C1", stack, state), "X1")
            return ("reject",)
    if pos == "T":
        if b in TOKEN_CHARS:
            return ("opaque", state)
        r = step(("AV", stack), b, ext, max_depth)
        if r[0] == "accept":
            return ("may", r[1], r[2])
        return r
    if pos in ("V", "A0"):
        if pos == "A0" and b == 0x5D:
            return ("accept", _after_value(stack[:-1]), None)
        if pos == "V" and stack and stack[-1] == "A" and b == 0x5D and ext and state[-1] == "aftercomma":
            return ("accept", _after_value(stack[:-1]), "X3")
        starts_value = (b in (0x22, 0x7B, 0x5B, 0x2D) or b in DIGITS or b in (ord("t"), ord("f"), ord("n"), ord("T"), ord("F"),
                        ord("N"), ord("I"), ord("i")) or (ext and b == 0x27))
        if starts_value and max_depth is not None and len(stack) > max_depth - 1:
            # this value would be enclosed by more than max_depth-1 containers
            return ("depth",)
        if b == 0x22:
            return ("accept", ("S", stack, 0x22), None)
        if b == 0x27:
            if ext:
                return ("accept", ("S", stack, 0x27), "X2")
            return ("reject",)
        if b in (0x7B, 0x5B):
            if b == 0x7B:
                return ("accept", ("O0", stack + ("O",)), None)
            return ("accept", ("A0", stack + ("A",)), None)
        if b in DIGITS or b == 0x2D or b in (ord("t"), ord("f"), ord("n")):
            return ("opaque", ("T", stack))
        if b in (ord("T"), ord("F"), ord("N"), ord("I"), ord("i")):
            # literal in another case / Infinity / NaN: a token whose acceptance depends on its text and on the
            # mode (X4 is decided by a separate rule: the case-insensitive comparison is unreachable in strict mode)
            return ("opaque", ("T", stack))
        return ("reject",)
    if pos in ("O0", "OK"):
        if b == 0x7D:
            if pos == "O0":
                return ("accept", _after_value(stack[:-1]), None)
            if ext:
                return ("accept", _after_value(stack[:-1]), "X3")
            return ("reject",)
        if b == 0x22:
            return ("accept", ("K", stack, 0x22), None)
        if b == 0x27:
            if ext:
                return ("accept", ("K", stack, 0x27), "X2")
            return ("reject",)
        return ("reject",)
    if pos == "KC":
        if b == 0x3A:
            return ("accept", ("V", stack), None)
        return ("reject",)
    if pos == "AV":
        if not stack:
            return ("reject",)       # trailing non-whitespace after the document (X8, handled by the caller)
        top = stack[-1]
        if top == "A":
            if b == 0x2C:
                return ("accept", ("V", stack, "aftercomma"), None)
            if b == 0x5D:
                return ("accept", _after_value(stack[:-1]), None)
            return ("reject",)
        if b == 0x2C:
            return ("accept", ("OK", stack), None)
        if b == 0x7D:
            return ("accept", _after_value(stack[:-1]), None)
        return ("reject",)
    raise ValueError("unknown reference position %r" % (pos,))


def norm(state):
    """canonical form (drop the 'aftercomma' marker when extensions are off is done by the caller)"""
    return state
