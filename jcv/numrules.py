"""Rules over the number-token exploration (jcv.numtok), shared by C01 (valid numbers are read as the right kind),
C16 (strict mode accepts only RFC 8259 numbers) and C03 (a number read across a chunk boundary behaves like one read whole)."""
import os
import pickle
import hashlib

from . import tokauto, numtok
from .numtok import RFC_NUMBER, RFC_PREFIX, CLASSES, REP, canon_text
from .frontend import AnalysisBroken, WORK

F_STRICT = 1
INT_CTORS = ("json_object_new_int64", "json_object_new_uint64", "json_object_new_int")
DBL_CTORS = ("json_object_new_double_s", "json_object_new_double")
TERMINATORS = (0x2C, 0x5D, 0x7D, 0x20, 0x09, 0x0A, 0x0D)

_mem = {}


def get(prog, flags, max_depth=2, alpha=None):
    """(NT, nodes, parent, truncated) for the two representative contexts (top level, array element); cached on disk by the IR
    of json_tokener.c / json_util.c and the engine sources"""
    alpha = alpha or numtok.NUM_ALPHA
    key = (id(prog), flags, max_depth, alpha.name)
    if key in _mem:
        return _mem[key]
    irh = "-".join(u["hash"] for u in prog.units if u["file"] in ("json_tokener.c", "json_util.c"))
    here = os.path.dirname(os.path.abspath(__file__))
    h = hashlib.sha256()
    for f in ("numtok.py", "tokauto.py", "pe.py", "strpe.py", "ir.py"):
        with open(os.path.join(here, f), "rb") as fh:
            h.update(fh.read())
    tag = "%s-%s-%s-f%d-d%d-%s" % (alpha.name[:3], prog.variant, irh, flags, max_depth, h.hexdigest()[:12])
    cdir = os.path.join(WORK, "tok")
    os.makedirs(cdir, exist_ok=True)
    path = os.path.join(cdir, tag + ".pkl")
    T = tokauto.get_table(prog, flags, max_depth)
    ents = numtok.number_entries(T, alpha.states)
    if not ents:
        raise AnalysisBroken("no configuration of the tokener starts a %s token" % alpha.name)
    # representative contexts: the top level and one nested position (the number state's code does not look at the parent)
    top = [e for e in ents if e[0] == 0 and T.state_name.get(e[1][0][1]) == "start"]
    nested = [e for e in ents if e not in top]
    chosen = top[:1] + nested[:1]
    res = None
    if os.path.isfile(path):
        try:
            with open(path, "rb") as fh:
                nodes, parent, truncated, stats = pickle.load(fh)
            NT = numtok.NumTable(prog, flags, max_depth, alpha)
            NT.stats = dict(stats, cached=True)
            res = (NT, nodes, parent, truncated)
        except Exception:
            res = None
    if res is None:
        NT, nodes, parent, truncated = numtok.explore(prog, flags, max_depth, chosen,
                                                      budget_s=float(os.environ.get("JCV_TOK_BUDGET", "150")) * 2, alpha=alpha)
        tmp = path + ".tmp%d" % os.getpid()
        try:
            with open(tmp, "wb") as fh:
                pickle.dump((nodes, parent, truncated, NT.stats), fh)
            os.rename(tmp, path)
        except OSError:
            pass
        for f in os.listdir(cdir):
            if f.endswith(".pkl") and f.startswith("%s-%s-" % (alpha.name[:3], prog.variant)) and ("-f%d-d%d-" % (flags, max_depth)) in f and f != tag + ".pkl":
                try:
                    os.unlink(os.path.join(cdir, f))
                except OSError:
                    pass
        res = (NT, nodes, parent, truncated)
    _mem[key] = res + (chosen, len(ents))
    return _mem[key]


def _in_range(o):
    """the conversion's result is representable (no ERANGE leaf)"""
    for r, dom in o.ranges.items():
        if r.startswith("range#") and dom != [0]:
            return False
        if r.startswith("urange#") and 2 in dom:
            return False
    return True


def _ctor(o):
    ints = [c for c in o.calls if c in INT_CTORS]
    dbls = [c for c in o.calls if c in DBL_CTORS]
    return ints, dbls


def _show(b):
    return b.decode("latin-1")


def describe(chk, name, data):
    NT, nodes, parent, truncated, chosen, nents = data
    chk.tables[name] = {"nodes": len(nodes), "texts": len({n[1] for n in nodes if n[1] is not None}), "truncated": len(truncated),
                        "contexts_explored": [NT.cfg_str(c) for c in chosen], "number_entry_configurations": nents,
                        "stats": NT.stats}


def rule_valid_numbers(chk, prog, rid, modes=((0, "default"), (F_STRICT, "strict"))):
    """C01: every RFC 8259 number is scanned to its end and converted, as an integer or a double according to its syntax"""
    chk.rule(rid, "number tokens, with the token buffer modelled exactly up to digit-run collapsing: from every reachable (parser "
                  "configuration, saved text) pair, each byte that continues an RFC 8259 number is appended and keeps the parser in the "
                  "number state; when a complete RFC number is followed by a terminator the token is converted (no syntax error), by the "
                  "integer conversion iff the text has no fraction or exponent and by the double conversion otherwise; both modes")
    n = 0
    for flags, mname in modes:
        data = get(prog, flags)
        NT, nodes, parent, truncated, chosen, nents = data
        describe(chk, "numbers_%s" % mname, data)
        bad_scan, bad_conv, bad_kind = [], [], []
        opaque = set()
        nscan = nconv = 0
        for node, res in nodes.items():
            cfg, text = node
            if text is None or not RFC_PREFIX.match(text):
                continue
            for cname, o in res:
                if getattr(o, "opaque", None):
                    opaque.add(o.opaque[0])
                    continue
                if cname != "other":
                    rep = REP[sorted(x % 256 for x in o.bytes)[0]]
                    want = canon_text(text + bytes([rep]))
                    if RFC_PREFIX.match(want):
                        nscan += 1
                        ok = o.err in (0, 1) and o.next is not None and NT.top_state(o.next) == NT.NUMBER and o.text == want
                        if not ok:
                            bad_scan.append((node, rep, o))
                        continue
                if RFC_NUMBER.match(text):
                    terms = [b % 256 for b in o.bytes if (b % 256) in TERMINATORS]
                    if not terms or not _in_range(o):
                        continue
                    nconv += 1
                    ints, dbls = _ctor(o)
                    err_name = NT.err_name.get(o.err, o.err)
                    if err_name == "error_parse_number" or not (ints or dbls):
                        bad_conv.append((node, terms[0], o))
                        continue
                    is_dbl = any(c in text for c in b".eE")
                    if (is_dbl and not dbls) or (not is_dbl and not ints):
                        bad_kind.append((node, terms[0], o))
        n += nscan + nconv
        sig = "%s mode: continuation bytes" % mname
        if bad_scan:
            node, rep, o = bad_scan[0]
            w = numtok.witness(parent, node)
            chk.refuted(rid, "json_tokener_parse_ex", sig, "json_tokener.c",
                        "after the number text %r (fed one byte per call) the byte %r continues an RFC 8259 number but the parser %s"
                        % (_show(w), chr(rep), "reports %s" % NT.err_name.get(o.err, o.err) if o.err not in (0, 1) else
                           "leaves the number state or saves %r" % (o.text,)), {"count": len(bad_scan)})
        else:
            chk.proven(rid, "json_tokener_parse_ex", sig, "json_tokener.c", "%d (text, byte) continuations appended" % nscan)
        sig = "%s mode: conversion of complete numbers" % mname
        if bad_conv:
            node, t, o = bad_conv[0]
            w = numtok.witness(parent, node)
            chk.refuted(rid, "json_tokener_parse_ex", sig, "json_tokener.c",
                        "the RFC 8259 number %r followed by %r is not converted (status %s, constructors %s)"
                        % (_show(w), chr(t), NT.err_name.get(o.err, o.err), sorted(set(o.calls) & set(INT_CTORS + DBL_CTORS))), {"count": len(bad_conv)})
        else:
            chk.proven(rid, "json_tokener_parse_ex", sig, "json_tokener.c", "%d (number, terminator) pairs converted" % nconv)
        sig = "%s mode: integer / double by syntax" % mname
        if bad_kind:
            node, t, o = bad_kind[0]
            w = numtok.witness(parent, node)
            chk.refuted(rid, "json_tokener_parse_ex", sig, "json_tokener.c",
                        "the number %r is built with %s" % (_show(w), sorted(set(o.calls) & set(INT_CTORS + DBL_CTORS))), {"count": len(bad_kind)})
        else:
            chk.proven(rid, "json_tokener_parse_ex", sig, "json_tokener.c", "kind follows the syntax on every converted number")
        if opaque:
            chk.undecided(rid, "json_tokener_parse_ex", "%s mode: calls on the token text that are not modelled" % mname, "json_tokener.c",
                          "the token buffer is passed to %s, whose effect on the decision is not modelled" % sorted(opaque))
        if truncated:
            chk.undecided(rid, "json_tokener_parse_ex", "%s mode: texts beyond %d characters" % (mname, numtok.NUM_ALPHA.maxtext), "json_tokener.c",
                          "the saved text grows without bound along %d paths (e.g. %r); those were not followed"
                          % (len(truncated), _show(numtok.witness(parent, truncated[0]))))
    chk.floor(rid, n, 400, "number continuation / conversion obligations")


def rule_strict_numbers(chk, prog, rid):
    """C16: strict mode builds a number only from an RFC 8259 number"""
    chk.rule(rid, "strict mode, number tokens with the token buffer modelled: whenever a numeric node is built, the saved token text is "
                  "an RFC 8259 number (no superfluous leading zero, digits on both sides of a '.', digits after an exponent marker)")
    data = get(prog, F_STRICT)
    NT, nodes, parent, truncated, chosen, nents = data
    describe(chk, "numbers_strict", data)
    n = 0
    bad = {}
    opaque = set()
    for node, res in nodes.items():
        cfg, text = node
        if text is None:
            continue
        for cname, o in res:
            ints, dbls = _ctor(o)
            if not (ints or dbls):
                continue
            n += 1
            if getattr(o, "opaque", None):
                opaque.add(o.opaque[0])
                continue
            if o.err not in (0, 1):
                continue
            if not RFC_NUMBER.match(text):
                shape = _shape(text)
                if shape not in bad:
                    bad[shape] = (node, sorted(x % 256 for x in o.bytes)[0], o)
    for shape in sorted(set(bad) | {"(none)"}):
        if shape == "(none)":
            if not bad:
                chk.proven(rid, "json_tokener_parse_ex", "numeric nodes built in strict mode", "json_tokener.c",
                           "%d conversions, all from RFC 8259 numbers" % n)
            continue
        node, b, o = bad[shape]
        w = numtok.witness(parent, node)
        chk.refuted(rid, "json_tokener_parse_ex", "strict: %s" % shape, "json_tokener.c",
                    "strict mode accepts the number token %r (followed by %r): %s, which RFC 8259 does not allow"
                    % (_show(w), chr(b) if 32 <= b < 127 else "\\x%02x" % b, shape), {"witness": _show(w), "terminator": b})
    if opaque:
        chk.undecided(rid, "json_tokener_parse_ex", "calls on the token text that are not modelled", "json_tokener.c",
                      "the token buffer is passed to %s, whose effect on the decision is not modelled" % sorted(opaque))
    if truncated:
        chk.undecided(rid, "json_tokener_parse_ex", "texts beyond %d characters" % numtok.NUM_ALPHA.maxtext, "json_tokener.c",
                      "the saved text grows without bound along %d paths; those were not followed" % len(truncated))
    chk.floor(rid, n, 100, "numeric constructions examined")


def rule_trailing_after_number(chk, prog, rid):
    """C16: a complete top-level number followed by a byte that cannot continue it"""
    from .tokrules import F_TRAILING
    chk.rule(rid, "a top-level number token followed by a byte that neither continues the number nor is white space (token buffer "
                  "modelled, bytes fed one per call, so the number and the byte may arrive in different calls): with STRICT | ALLOW_TRAILING_CHARS and in default mode the number is returned with "
                  "success and the byte is left unconsumed (the reported end is the number's end)")
    ws = {0x20, 0x09, 0x0A, 0x0D}
    n = 0
    for flags, mname in ((F_STRICT | F_TRAILING, "strict+allow_trailing"), (0, "default")):
        data = get(prog, flags)
        NT, nodes, parent, truncated, chosen, nents = data
        describe(chk, "numbers_%s" % mname.replace("+", "_"), data)
        bad = None
        cnt = 0
        opaque = set()
        for node, res in nodes.items():
            cfg, text = node
            if text is None or not RFC_NUMBER.match(text) or cfg[0] != 0:
                continue
            if len(cfg[1]) != 1:
                continue          # not the top level
            for cname, o in res:
                if cname != "other":
                    continue
                if getattr(o, "opaque", None):
                    opaque.add(o.opaque[0])
                    continue
                bs = [b % 256 for b in o.bytes if (b % 256) not in ws and (b % 256) != 0 and not ((b % 256) == 0x2F and not (flags & F_STRICT))]
                if not bs or not _in_range(o):
                    continue
                cnt += 1
                good = o.err == 0 and o.ret_nonnull and o.consumed == 0
                if not good and bad is None:
                    bad = (node, bs[0], o)
        n += cnt
        sig = "top-level number then a trailing byte, %s" % mname
        if bad:
            node, b, o = bad
            w = numtok.witness(parent, node)
            chk.refuted(rid, "json_tokener_parse_ex", sig, "json_tokener.c",
                        "after the top-level number %r the byte %r gives status %s (value returned: %s, trailing bytes consumed: %s) in %s mode; "
                        "the number is complete and the byte is merely trailing"
                        % (_show(w), chr(b) if 32 <= b < 127 else "\\x%02x" % b, NT.err_name.get(o.err, o.err), o.ret_nonnull, o.consumed, mname),
                        {"witness": _show(w), "byte": b})
        elif cnt == 0:
            chk.undecided(rid, "json_tokener_parse_ex", sig, "json_tokener.c", "no (top-level number, trailing byte) pair was explored")
        else:
            chk.proven(rid, "json_tokener_parse_ex", sig, "json_tokener.c", "%d (number, byte class) pairs: value returned, byte left unconsumed" % cnt)
        if opaque:
            chk.undecided(rid, "json_tokener_parse_ex", "%s: calls on the token text that are not modelled" % mname, "json_tokener.c",
                          "the token buffer is passed to %s" % sorted(opaque))
    chk.floor(rid, n, 10, "(top-level number, trailing byte class) pairs")


def _shape(t):
    """why a text is not an RFC number (one of a few classes, used as the obligation's name)"""
    s = t[1:] if t.startswith(b"-") else t
    if not s or not (0x30 <= s[0] <= 0x39):
        return "no digit before the fraction or exponent"
    if len(s) > 1 and s[0] == 0x30 and 0x30 <= s[1] <= 0x39:
        return "superfluous leading zero"
    import re
    if re.search(rb"\.(?![0-9])", s):
        return "no digit after the decimal point"
    if re.search(rb"[eE][+-]?(?![0-9])", s):
        return "no digit in the exponent"
    return "malformed number"


def rule_split_numbers(chk, prog, rid, maxlen=4, modes=((0, "default"), (F_STRICT, "strict")), alpha=None, text=None):
    """C03: inside a number (or literal), a call with two bytes behaves like two calls with one byte each"""
    alpha = alpha or numtok.NUM_ALPHA
    chk.rule(rid, text or "number tokens: from every reachable (configuration, saved text) pair with a text of up to %d canonical characters "
                  "(every combination of 'has exponent marker', 'marker is last', 'last is the decimal point', empty / non-empty), "
                  "feeding two bytes in one call and in two calls gives the same status, consumed count, successor configuration, "
                  "saved text and conversions: the state re-derived from the saved text on resumption equals the state carried "
                  "inside a call" % maxlen)
    n = 0
    for flags, mname in modes:
        data = get(prog, flags, alpha=alpha)
        NT, nodes, parent, truncated, chosen, nents = data
        sel = [nd for nd in nodes if nd[1] is not None and len(nd[1]) <= maxlen and NT.top_state(nd[0]) in NT.TRACKED]
        # also the entry configurations (first byte of the token and the one after it in one call)
        sel += [nd for nd in nodes if nd[1] is None]
        ncls = len(alpha.classes)
        allb = [(cn, alpha.rep[bs[0]]) for cn, bs in alpha.classes] + [(",", 0x2C), ("]", 0x5D), (" ", 0x20), ("x", 0x78)]
        tasks = []

        def stays(nd, c1n):
            first = [o for cn, o in nodes[nd] if cn == c1n]
            return bool(first) and all(o.err == 1 and o.next is not None and NT.top_state(o.next) in NT.TRACKED for o in first)
        for nd in sel:
            for c1n, b1 in allb[:ncls]:
                if nd[1] is None and c1n not in alpha.entry:
                    continue
                if not stays(nd, c1n):
                    continue      # the first byte ends the token or fails: that boundary is the general automaton's (C03.R6)
                for c2n, b2 in allb:
                    tasks.append((nd[0], nd[1], "%s|%s" % (c1n, c2n), [(b1, b2)], 2))
        res2 = _pairs_parallel(prog, flags, tasks, alpha)
        bad = []
        opaque = 0
        for nd in sel:
            for c1n, b1 in allb[:ncls]:
                if nd[1] is None and c1n not in alpha.entry:
                    continue
                first = [o for cn, o in nodes[nd] if cn == c1n]
                for c2n, b2 in allb:
                    whole = res2.get((nd[0], nd[1], "%s|%s" % (c1n, c2n)))
                    if whole is None:
                        continue
                    n += 1
                    split = _compose(NT, nodes, nd, first, b2)
                    if split is None:
                        continue          # the first byte ended the token or failed: covered by the general automaton's rule
                    if any(getattr(o, "opaque", None) for o in whole) or split == "opaque":
                        opaque += 1
                        continue
                    a = sorted(_summary(NT, o, 2) for o in whole)
                    b = sorted(split)
                    if a != b:
                        bad.append((nd, b1, b2, a, b))
        sig = "%s mode: two bytes in one call vs two calls" % mname
        if bad:
            nd, b1, b2, a, b = bad[0]
            w = numtok.witness(parent, nd)
            chk.refuted(rid, "json_tokener_parse_ex", sig, "json_tokener.c",
                        "after the saved token text %r, the bytes %r in one call give %s but split between them they give %s"
                        % (_show(w), bytes([b1, b2]).decode("latin-1"), a, b), {"count": len(bad)})
        elif opaque:
            chk.undecided(rid, "json_tokener_parse_ex", sig, "json_tokener.c",
                          "%d comparisons involve a call on the token text that is not modelled" % opaque)
        else:
            chk.proven(rid, "json_tokener_parse_ex", sig, "json_tokener.c", "%d (text, byte pair) comparisons agree" % n)
        if truncated:
            chk.undecided(rid, "json_tokener_parse_ex", "%s mode: unbounded saved texts" % mname, "json_tokener.c",
                          "the saved text grows without bound along %d paths (e.g. %r)" % (len(truncated), _show(numtok.witness(parent, truncated[0]))))
    chk.floor(rid, n, 1000, "two-byte comparisons")


def _summary(NT, o, consumed_expected):
    return (NT.err_name.get(o.err, str(o.err)), o.consumed,
            NT.cfg_str(NT.canon(o.next)) if (o.next is not None and o.err in (0, 1)) else None,
            o.text if (o.next is not None and o.err in (0, 1) and NT.top_state(o.next) in NT.TRACKED) else None,
            tuple(sorted(set(o.calls) & set(INT_CTORS + DBL_CTORS))), bool(o.ret_nonnull))


def _compose(NT, nodes, nd, first, b2):
    """summaries of feeding the first byte (outcomes `first`) and then b2 in a second call; None when the first call does not
    stay inside the number"""
    out = []
    for o1 in first:
        if o1.err != 1 or o1.next is None or NT.top_state(o1.next) not in NT.TRACKED:
            return None
        nn = (o1.next, o1.text)
        if nn not in nodes:
            return None
        if getattr(o1, "opaque", None):
            return "opaque"
        for cn, o2 in nodes[nn]:
            if b2 in {x % 256 for x in o2.bytes}:
                if getattr(o2, "opaque", None):
                    return "opaque"
                s = _summary(NT, o2, 1)
                out.append((s[0], (s[1] + 1) if s[1] is not None else None) + s[2:])
    return out


def _pairs_parallel(prog, flags, tasks, alpha=None):
    """2-byte walks: byte domain is a single (b1, b2) pair"""
    import multiprocessing as mp
    ctx = mp.get_context("fork")
    pool = ctx.Pool(min(16, os.cpu_count() or 1), initializer=numtok._worker_init, initargs=(prog, flags, 2, 1800, alpha))
    out = {}
    try:
        for key, outs, err in pool.imap_unordered(_pair_step, tasks, chunksize=16):
            if err is not None:
                raise AnalysisBroken(err)
            out[key] = outs
    finally:
        pool.terminate()
        pool.join()
    return out


def _pair_step(task):
    cfg, text, name, pairs, length = task
    NT = numtok._W["NT"]
    b1, b2 = pairs[0]
    try:
        outs = NT.nstep(cfg, text, [b1 if b1 < 128 else b1 - 256], 2, second=[b2 if b2 < 128 else b2 - 256])
    except AnalysisBroken as e:
        return ((cfg, text, name), None, str(e))
    return ((cfg, text, name), outs, None)


# ---------------------------------------------------------------------------------------------------------------
# literal tokens (null / true / false, and json-c's NaN)
LITERALS = {b"null": None, b"true": ("json_object_new_boolean", 1), b"false": ("json_object_new_boolean", 0)}


def _lit_result(o):
    """what a completed literal produced: ('json_object_new_boolean', 1) / None for no constructor / 'other'"""
    cs = [(n, a) for n, a in o.callargs if n.startswith("json_object_new_")]
    if not cs:
        return None
    if len(cs) == 1 and cs[0][0] == "json_object_new_boolean":
        return ("json_object_new_boolean", cs[0][1][0])
    return ("other", tuple(n for n, _ in cs))


def rule_literals(chk, prog, rid_valid, rid_strict, rid_default):
    """literal tokens with the token buffer modelled: exact lowercase literals are read in both modes with the right value (C01),
    strict mode follows nothing but the exact spellings (C16), default mode reads every case variant as the lowercase one (C16)"""
    lit = numtok.LIT_ALPHA
    if rid_valid:
        chk.rule(rid_valid, "literal tokens, token buffer modelled: in both modes the letters of null / true / false are appended one by one "
                            "with status 'continue', and the byte after the last letter (',', ']', '}', space, tab, CR, LF) completes the "
                            "token without error: no node for null, json_object_new_boolean(1) for true, (0) for false")
    if rid_strict:
        chk.rule(rid_strict, "strict mode, literal tokens: every reachable saved text in the literal states is a case-exact prefix of "
                             "null, true, false (or json-c's NaN); any other spelling has already failed")
    if rid_default:
        chk.rule(rid_default, "default mode, literal tokens: every upper/lower-case spelling of null, true and false is completed like the "
                              "lowercase one (same constructor and argument)")
    for flags, mname in ((0, "default"), (F_STRICT, "strict")):
        data = get(prog, flags, alpha=lit)
        NT, nodes, parent, truncated, chosen, nents = data
        describe(chk, "literals_%s" % mname, data)
        bytext = {}
        for nd in nodes:
            if nd[1] is not None:
                bytext.setdefault(nd[1], []).append(nd)
        if rid_valid:
            for word, want in sorted(LITERALS.items()):
                sig = "%s mode: %s" % (mname, word.decode())
                missing = [word[:k] for k in range(1, len(word) + 1) if word[:k] not in bytext]
                if missing:
                    chk.refuted(rid_valid, "json_tokener_parse_ex", sig, "json_tokener.c",
                                "the prefix %r of the literal is not accepted (fed one byte per call)" % missing[0].decode())
                    continue
                bad = None
                nterm = 0
                for nd in bytext[word]:
                    for cname, o in nodes[nd]:
                        terms = [b % 256 for b in o.bytes if (b % 256) in TERMINATORS]
                        if not terms:
                            continue
                        nterm += 1
                        en = NT.err_name.get(o.err, o.err)
                        if en in ("error_parse_null", "error_parse_boolean") or _lit_result(o) != want:
                            bad = bad or (terms[0], en, _lit_result(o))
                if bad:
                    chk.refuted(rid_valid, "json_tokener_parse_ex", sig, "json_tokener.c",
                                "%r followed by %r gives status %s and constructs %s (expected %s)" % (word.decode(), chr(bad[0]), bad[1], bad[2], want))
                elif nterm == 0:
                    chk.undecided(rid_valid, "json_tokener_parse_ex", sig, "json_tokener.c", "no terminator step found")
                else:
                    chk.proven(rid_valid, "json_tokener_parse_ex", sig, "json_tokener.c", "%d terminator steps complete the literal" % nterm)
        if rid_strict and flags == F_STRICT:
            allowed = set()
            for w in list(LITERALS) + [b"NaN"]:
                for k in range(1, len(w) + 1):
                    allowed.add(w[:k])
                # the byte after the last letter is appended before the comparison: the text may be one byte longer
            badt = sorted(t for t in bytext if t not in allowed and t[:-1] not in allowed)
            badt = [t for t in badt if not any(t[:len(w)] == w for w in list(LITERALS) + [b"NaN"])]
            if badt:
                chk.refuted(rid_strict, "json_tokener_parse_ex", "strict: reachable literal texts", "json_tokener.c",
                            "strict mode is still reading a literal after the text %r, which is not a case-exact prefix of null / true / false"
                            % badt[0].decode("latin-1"), {"texts": [t.decode("latin-1") for t in badt[:10]]})
            else:
                chk.proven(rid_strict, "json_tokener_parse_ex", "strict: reachable literal texts", "json_tokener.c",
                           "%d reachable texts, all case-exact prefixes" % len(bytext))
            chk.floor(rid_strict, len(bytext), 10, "literal texts reachable in strict mode")
        if rid_default and flags == 0:
            from itertools import product as iproduct
            n = 0
            bad = None
            for word, want in sorted(LITERALS.items()):
                for mask in iproduct((0, 1), repeat=len(word)):
                    v = bytes((c - 32) if m else c for c, m in zip(word, mask))
                    n += 1
                    if v not in bytext:
                        bad = bad or (v, "is rejected before it is complete", None)
                        continue
                    for nd in bytext[v]:
                        for cname, o in nodes[nd]:
                            terms = [b % 256 for b in o.bytes if (b % 256) in TERMINATORS]
                            if not terms:
                                continue
                            en = NT.err_name.get(o.err, o.err)
                            if en in ("error_parse_null", "error_parse_boolean") or _lit_result(o) != want:
                                bad = bad or (v, "followed by %r gives status %s and constructs %s" % (chr(terms[0]), en, _lit_result(o)), want)
            if bad:
                chk.refuted(rid_default, "json_tokener_parse_ex", "default: case variants", "json_tokener.c",
                            "the spelling %r %s" % (bad[0].decode(), bad[1]))
            else:
                chk.proven(rid_default, "json_tokener_parse_ex", "default: case variants", "json_tokener.c", "%d spellings completed like the lowercase literal" % n)
            chk.floor(rid_default, n, 64, "case variants of the three literals")
