"""Partial evaluator with libc string functions evaluated on concrete bytes held in the evaluator's memory
(strchr, strstr, strlen, strcat, memmove / memcpy).  Used for rules that evaluate a small text-rewriting routine on every
member of a finite family of texts."""
from . import pe


_WS = b" \t\n\v\f\r"


def ctype_flags(c):
    """glibc's ctype table entry (__ctype_b_loc) in the C locale"""
    if not 0 <= c < 128:
        return 0
    ch = chr(c)
    fl = 0
    if ch.isupper():
        fl |= 1 << 8
    if ch.islower():
        fl |= 1 << 9
    if ch.isalpha():
        fl |= 1 << 10
    if ch.isdigit():
        fl |= 1 << 11
    if ch in "0123456789abcdefABCDEF":
        fl |= 1 << 12
    if c in _WS:
        fl |= 1 << 13
    if 32 <= c < 127:
        fl |= 1 << 14
    if 32 < c < 127:
        fl |= 1 << 15
    if ch in " \t":
        fl |= 1 << 0
    if c < 32 or c == 127:
        fl |= 1 << 1
    if 32 < c < 127 and not ch.isalnum():
        fl |= 1 << 2
    if ch.isalnum():
        fl |= 1 << 3
    return fl


class StrPE(pe.PE):
    def load(self, state, addr, type_):
        # the C-locale character class table behind isspace() / isdigit() ...: (*__ctype_b_loc())[c]
        if addr[0] == "ptr" and addr[1] in ("ctypeloc", "ctype"):
            loc = self._loc(state, addr)
            if loc is not None:
                if loc[0] == "ctypeloc" and not loc[1]:
                    return ("ptr", "ctype", ())
                if loc[0] == "ctype":
                    el, fl = pe.fields_of(loc[1])
                    if not fl and isinstance(el, int) and -128 <= el < 256:
                        v = ctype_flags(el)
                        return pe.C(v if v < 32768 else v - 65536)
            return pe.TOP
        return super().load(state, addr, type_)

    @staticmethod
    def _at(p, k):
        if k == 0:
            return p
        path = list(p[2])
        if path and isinstance(path[-1], tuple) and path[-1][0] == "i" and isinstance(path[-1][1], int):
            path[-1] = ("i", path[-1][1] + k)
        else:
            path.append(("i", k))
        return ("ptr", p[1], tuple(path))

    def _byte(self, state, p, k):
        v = self.load(state, self._at(p, k), "i8")
        return v[1] % 256 if pe.is_const(v) else None

    def _cstr(self, state, p, limit=600):
        if p[0] != "ptr":
            return None
        out = bytearray()
        for k in range(limit):
            b = self._byte(state, p, k)
            if b is None:
                return None
            if b == 0:
                return bytes(out)
            out.append(b)
        return None

    def _write(self, state, p, data):
        for k, b in enumerate(data):
            self.store(state, self._at(p, k), pe.C(b if b < 128 else b - 256))

    def libc_string_model(self, state, frame, i, args):
        nm = i.callee
        if nm == "__ctype_b_loc":
            return ("ptr", "ctypeloc", ())
        if nm == "strchr":
            s = self._cstr(state, args[0])
            if s is None or not pe.is_const(args[1]):
                return None
            k = (s + b"\0").find(bytes([args[1][1] % 256]))
            return self._at(args[0], k) if k >= 0 else pe.C(0)
        if nm == "strstr":
            a, b = self._cstr(state, args[0]), self._cstr(state, args[1])
            if a is None or b is None:
                return None
            k = a.find(b)
            return self._at(args[0], k) if k >= 0 else pe.C(0)
        if nm == "strlen":
            s = self._cstr(state, args[0])
            return pe.C(len(s)) if s is not None else None
        if nm == "strcat":
            a, b = self._cstr(state, args[0]), self._cstr(state, args[1])
            if a is None or b is None:
                return None
            self._write(state, self._at(args[0], len(a)), b + b"\0")
            return args[0]
        if nm in ("strcpy", "stpcpy"):
            b = self._cstr(state, args[1], 600)
            if b is None or args[0][0] != "ptr":
                return None
            self._write(state, args[0], b + b"\0")
            return args[0] if nm == "strcpy" else self._at(args[0], len(b))
        if nm == "strncpy":
            b = self._cstr(state, args[1], 600)
            if b is None or args[0][0] != "ptr" or not pe.is_const(args[2]) or not 0 <= args[2][1] <= 600:
                return None
            k = args[2][1]
            self._write(state, args[0], (b + b"\0" * k)[:k])
            return args[0]
        if nm in ("strdup", "strndup"):
            b = self._cstr(state, args[0], 600)
            if b is None:
                return None
            if nm == "strndup":
                if not pe.is_const(args[1]):
                    return None
                b = b[:max(0, args[1][1])]
            state.nfresh += 1
            p = ("ptr", "heap#%d" % state.nfresh, ())
            self._write(state, p, b + b"\0")
            return p
        if nm in ("malloc", "calloc", "realloc") and getattr(self, "model_alloc", False):
            if nm == "realloc":
                return None
            state.nfresh += 1
            p = ("ptr", "heap#%d" % state.nfresh, ())
            if nm == "calloc" and all(pe.is_const(a) for a in args[:2]) and 0 <= args[0][1] * args[1][1] <= 600:
                self._write(state, p, b"\0" * (args[0][1] * args[1][1]))
            return p
        if nm == "free" and getattr(self, "model_alloc", False):
            return pe.C(0)
        if nm == "strnlen":
            s = self._cstr(state, args[0], 600)
            if s is None or not pe.is_const(args[1]):
                return None
            return pe.C(min(len(s), args[1][1]))
        if nm in ("strcmp", "strncmp", "memcmp"):
            if nm == "memcmp":
                if not pe.is_const(args[2]) or not 0 <= args[2][1] <= 600:
                    return None
                a = [self._byte(state, args[0], k) for k in range(args[2][1])]
                b = [self._byte(state, args[1], k) for k in range(args[2][1])]
                if any(x is None for x in a + b):
                    return None
                a, b = bytes(a), bytes(b)
            else:
                a, b = self._cstr(state, args[0], 600), self._cstr(state, args[1], 600)
                if a is None or b is None:
                    return None
                if nm == "strncmp":
                    if not pe.is_const(args[2]):
                        return None
                    a, b = a[:args[2][1]], b[:args[2][1]]
            return pe.C((a > b) - (a < b))
        if nm == "memset" or (nm or "").startswith("llvm.memset"):
            if args[0][0] != "ptr" or not pe.is_const(args[1]) or not pe.is_const(args[2]) or not 0 <= args[2][1] <= 600:
                return None
            self._write(state, args[0], bytes([args[1][1] % 256]) * args[2][1])
            return args[0]
        if nm in ("memmove", "memcpy") or (nm or "").startswith("llvm.memmove") or (nm or "").startswith("llvm.memcpy"):
            if not pe.is_const(args[2]) or args[2][1] < 0 or args[2][1] > 600:
                return None
            data = [self._byte(state, args[1], k) for k in range(args[2][1])]
            if any(d is None for d in data):
                return None
            self._write(state, args[0], bytes(data))
            return args[0]
        return None
