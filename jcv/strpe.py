"""Partial evaluator with libc string functions evaluated on concrete bytes held in the evaluator's memory
(strchr, strstr, strlen, strcat, memmove / memcpy).  Used for rules that evaluate a small text-rewriting routine on every
member of a finite family of texts."""
from . import pe


class StrPE(pe.PE):
    @staticmethod
    def _at(p, k):
        if k == 0:
            return p
        path = list(p[2])
        if path and isinstance(path[-1], tuple) and path[-1][0] == "i" and isinstance(path[-1][1], int):
            path[-1] = ("i", path[-1][1] + k)
        else:
            path.append(("i", k))
        return ("ptr", p[1], tuple(path))

    def _byte(self, state, p, k):
        v = self.load(state, self._at(p, k), "i8")
        return v[1] % 256 if pe.is_const(v) else None

    def _cstr(self, state, p, limit=200):
        if p[0] != "ptr":
            return None
        out = bytearray()
        for k in range(limit):
            b = self._byte(state, p, k)
            if b is None:
                return None
            if b == 0:
                return bytes(out)
            out.append(b)
        return None

    def _write(self, state, p, data):
        for k, b in enumerate(data):
            self.store(state, self._at(p, k), pe.C(b if b < 128 else b - 256))

    def libc_string_model(self, state, frame, i, args):
        nm = i.callee
        if nm == "strchr":
            s = self._cstr(state, args[0])
            if s is None or not pe.is_const(args[1]):
                return None
            k = (s + b"\0").find(bytes([args[1][1] % 256]))
            return self._at(args[0], k) if k >= 0 else pe.C(0)
        if nm == "strstr":
            a, b = self._cstr(state, args[0]), self._cstr(state, args[1])
            if a is None or b is None:
                return None
            k = a.find(b)
            return self._at(args[0], k) if k >= 0 else pe.C(0)
        if nm == "strlen":
            s = self._cstr(state, args[0])
            return pe.C(len(s)) if s is not None else None
        if nm == "strcat":
            a, b = self._cstr(state, args[0]), self._cstr(state, args[1])
            if a is None or b is None:
                return None
            self._write(state, self._at(args[0], len(a)), b + b"\0")
            return args[0]
        if nm in ("memmove", "memcpy") or (nm or "").startswith("llvm.memmove") or (nm or "").startswith("llvm.memcpy"):
            if not pe.is_const(args[2]) or args[2][1] < 0 or args[2][1] > 400:
                return None
            data = [self._byte(state, args[1], k) for k in range(args[2][1])]
            if any(d is None for d in data):
                return None
            self._write(state, args[0], bytes(data))
            return args[0]
        return None
