"""Control-flow facts: dominators, post-dominators, reachability, def-use, call graph."""
from collections import defaultdict, deque
from .frontend import AnalysisBroken


class CFG:
    def __init__(self, fn):
        self.fn = fn
        self.blocks = list(fn.blocks.values())
        self.index = {b.name: k for k, b in enumerate(self.blocks)}
        self._dom = None
        self._pdom = None
        self._uses = None
        self._reach = {}

    # ---- dominators (iterative, Cooper-Harvey-Kennedy) ----------------------
    def _compute_idom(self, entry_nodes, succs, preds, nodes):
        """Cooper-Harvey-Kennedy over a graph with a virtual root joining entry_nodes"""
        ROOT = "__root__"

        def sc(n):
            return list(entry_nodes) if n == ROOT else succs(n)
        p2 = defaultdict(list)
        for n in nodes:
            for p in preds(n):
                p2[n].append(p)
        for e in entry_nodes:
            p2[e].append(ROOT)
        order = []
        seen = {ROOT}
        stack = [(ROOT, iter(sc(ROOT)))]
        while stack:
            n, it = stack[-1]
            adv = False
            for m in it:
                if m not in seen:
                    seen.add(m)
                    stack.append((m, iter(sc(m))))
                    adv = True
                    break
            if not adv:
                order.append(n)
                stack.pop()
        po = {n: k for k, n in enumerate(order)}
        idom = {ROOT: ROOT}
        rpo = list(reversed(order))

        def intersect(a, b):
            while a != b:
                while po[a] < po[b]:
                    a = idom[a]
                while po[b] < po[a]:
                    b = idom[b]
            return a
        changed = True
        while changed:
            changed = False
            for n in rpo:
                if n == ROOT:
                    continue
                new = None
                for p in p2[n]:
                    if p in idom:
                        new = p if new is None else intersect(p, new)
                if new is not None and idom.get(n) != new:
                    idom[n] = new
                    changed = True
        return idom, ROOT

    def idom(self):
        if self._dom is None:
            idom, root = self._compute_idom(
                [self.fn.entry], lambda b: b.succs, lambda b: b.preds, self.blocks)
            self._dom = (idom, root)
        return self._dom

    def ipdom(self):
        if self._pdom is None:
            exits = [b for b in self.blocks if not b.succs]
            idom, root = self._compute_idom(
                exits, lambda b: b.preds, lambda b: b.succs, self.blocks)
            self._pdom = (idom, root)
        return self._pdom

    def dominates_block(self, a, b):
        """block a dominates block b"""
        idom, root = self.idom()
        if b not in idom:
            return False  # unreachable
        n = b
        while True:
            if n is a:
                return True
            if n == root:
                return False
            n2 = idom.get(n)
            if n2 is None or n2 is n:
                return False
            n = n2

    def dominates(self, i1, i2):
        """instruction i1 dominates instruction i2"""
        if i1.block is i2.block:
            return i1.idx < i2.idx
        return self.dominates_block(i1.block, i2.block)

    def postdominates_block(self, a, b):
        idom, root = self.ipdom()
        if b not in idom:
            return False
        n = b
        while True:
            if n is a:
                return True
            if n == root:
                return False
            n2 = idom.get(n)
            if n2 is None or n2 is n:
                return False
            n = n2

    # ---- reachability ------------------------------------------------------
    def reachable_from(self, b, avoid=()):
        """set of blocks reachable from block b (including b) not passing through `avoid` blocks"""
        key = (b.name, tuple(sorted(x.name for x in avoid)))
        if key in self._reach:
            return self._reach[key]
        av = set(avoid)
        seen = {b}
        dq = deque([b])
        while dq:
            n = dq.popleft()
            for s in n.succs:
                if s not in seen and s not in av:
                    seen.add(s)
                    dq.append(s)
        self._reach[key] = seen
        return seen

    def edge_dominates(self, src, dst, target):
        """every path from entry to block `target` goes through edge src->dst.
        True when dst dominates target and dst's only predecessor is src, or more generally
        when removing the edge makes target unreachable from entry."""
        entry = self.fn.entry
        seen = {entry}
        dq = deque([entry])
        while dq:
            n = dq.popleft()
            for s in n.succs:
                if n is src and s is dst:
                    continue
                if s not in seen:
                    seen.add(s)
                    dq.append(s)
        return target not in seen

    # ---- def-use -----------------------------------------------------------
    def uses(self):
        if self._uses is None:
            u = defaultdict(list)
            for i in self.fn.instrs():
                ops = list(i.ops)
                c = i.x.get("callee")
                if c is not None:
                    ops.append(c)
                for o in ops:
                    for r in _regs(o):
                        u[r].append(i)
            self._uses = u
        return self._uses

    def users(self, regname):
        return self.uses().get(regname, [])

    def live_in(self):
        """block name -> frozenset of registers live on entry (phi operands count as live-out of the predecessor)"""
        if getattr(self, "_live", None) is not None:
            return self._live
        fn = self.fn
        use = {}
        defs = {}
        phi_uses = {}   # pred block name -> regs used by phis in successors (from that pred)
        for b in self.blocks:
            u, d = set(), set()
            for i in b.instrs:
                if i.op == "phi":
                    for v, lab in i.x["incoming"]:
                        for r in _regs(v):
                            phi_uses.setdefault(lab, set()).add(r)
                    d.add(i.res)
                    continue
                ops = list(i.ops)
                c = i.x.get("callee")
                if c is not None:
                    ops.append(c)
                for o in ops:
                    for r in _regs(o):
                        if r not in d:
                            u.add(r)
                if i.res is not None:
                    d.add(i.res)
            use[b.name], defs[b.name] = u, d
        live_in = {b.name: set(use[b.name]) for b in self.blocks}
        live_out = {b.name: set() for b in self.blocks}
        changed = True
        while changed:
            changed = False
            for b in reversed(self.blocks):
                out = set(phi_uses.get(b.name, ()))
                for s_ in b.succs:
                    out |= live_in[s_.name]
                if out != live_out[b.name]:
                    live_out[b.name] = out
                new_in = use[b.name] | (out - defs[b.name])
                if new_in != live_in[b.name]:
                    live_in[b.name] = new_in
                    changed = True
        self._live = {k: frozenset(v) for k, v in live_in.items()}
        return self._live

    def back_edges(self):
        """edges (a, b) where b dominates a"""
        out = []
        for a in self.blocks:
            for b in a.succs:
                if self.dominates_block(b, a):
                    out.append((a, b))
        return out


def _regs(v):
    if v.kind == "reg":
        yield v.v
    elif v.kind == "cexpr" or v.kind in ("array", "struct"):
        for a in v.args or ():
            yield from _regs(a)


_cfg_cache = {}


def cfg_of(fn):
    c = _cfg_cache.get(id(fn))
    if c is None or c.fn is not fn:
        c = CFG(fn)
        _cfg_cache[id(fn)] = c
    return c


# ---------------------------------------------------------------------------
# call graph


class CallGraph:
    def __init__(self, prog, indirect_targets=None):
        """indirect_targets: optional callable(instr) -> iterable of Function for indirect calls"""
        self.prog = prog
        self.callees = defaultdict(set)   # fn -> set of (Function | 'ext:name')
        self.callers = defaultdict(set)
        self.sites = defaultdict(list)    # callee name -> [instr]
        for f in prog.all_functions():
            for i in f.instrs():
                if i.op != "call":
                    continue
                nm = i.callee
                if nm is None:
                    if indirect_targets:
                        for g in indirect_targets(i):
                            self.callees[f].add(g)
                            self.callers[g].add(f)
                    continue
                self.sites[nm].append(i)
                g = prog.resolve(nm, f.module)
                if g is not None:
                    self.callees[f].add(g)
                    self.callers[g].add(f)
                else:
                    self.callees[f].add("ext:" + nm)

    def reachable(self, roots):
        seen = set()
        dq = deque(roots)
        while dq:
            f = dq.popleft()
            if f in seen or isinstance(f, str):
                continue
            seen.add(f)
            for g in self.callees[f]:
                if not isinstance(g, str) and g not in seen:
                    dq.append(g)
        return seen

    def ext_calls(self, roots):
        out = set()
        for f in self.reachable(roots):
            for g in self.callees[f]:
                if isinstance(g, str):
                    out.add(g[4:])
        return out


def address_taken_functions(prog):
    """map function name -> list of (where) for functions whose address is stored / passed"""
    out = defaultdict(list)
    for f in prog.all_functions():
        for i in f.instrs():
            ops = list(i.ops)
            for k, o in enumerate(ops):
                for g in _globals(o):
                    if prog.resolve(g, f.module) is not None:
                        out[g].append((i, k))
    return out


def _globals(v):
    if v.kind == "global":
        yield v.v
    elif v.kind in ("cexpr", "array", "struct"):
        for a in v.args or ():
            yield from _globals(a)
