"""Lock-step exploration of the extracted tokener automaton (jcv.tokauto) with the RFC 8259 reference
automaton (jcv.rfcref).  Only acceptance is compared (fatal error or not, per byte class); the tokener's
internal states are never named, except for the set of opaque token states (numbers / literals)."""
from collections import deque

from . import rfcref, tokauto

OPAQUE_STATES = {"null", "boolean", "inf", "number"}
LITERAL_STATES = {"null", "boolean", "inf"}
ERR_OK = (0, 1)     # success, continue


class Finding:
    def __init__(self, kind, cfg, ref, byte, outcome, prefix, msg):
        self.kind = kind
        self.cfg = cfg
        self.ref = ref
        self.byte = byte
        self.outcome = outcome
        self.prefix = prefix
        self.msg = msg


def _u(b):
    return b % 256


def explore(T, ext, max_pairs=60000):
    """T: tokauto.Table (already built).  ext: compare against the extended reference (default mode) or the strict RFC
    one.  Returns (stats, checks) where checks is a list of dicts describing every (pair, byte class) comparison
    that carries an obligation."""
    D = T.max_depth
    start = (T.canon(tokauto.initial_config()), rfcref.INITIAL)
    parent = {start: None}
    origin = {}
    dq = deque([start])
    checks = []
    npairs = 0
    while dq:
        pair = dq.popleft()
        cfg, ref = pair
        npairs += 1
        if npairs > max_pairs:
            raise tokauto.AnalysisBroken("product exploration exceeded %d pairs" % max_pairs)
        outs = T.trans.get(cfg)
        if outs is None:
            raise tokauto.AnalysisBroken("configuration %s missing from the transition table" % T.cfg_str(cfg))
        top_state = T.state_name.get(cfg[1][cfg[0]][0], "?")
        # group the 256 bytes by the reference's reaction
        react = {}
        for b in range(256):
            if b == 0:
                continue        # NUL is the end-of-text marker of the len == -1 mode; handled by the C04 rules
            r = rfcref.step(ref, b, ext=ext, max_depth=D)
            react[b] = r
        for o in outs:
            groups = {}
            for sb in o.bytes:
                b = _u(sb)
                if b == 0:
                    continue
                groups.setdefault(react[b], []).append(b)
            for r, bs in groups.items():
                ok = o.err in ERR_OK
                ended = (o.err == 0 and o.ret_nonnull) or (o.err == 0 and o.next == T.canon(tokauto.initial_config()))
                entry = {"cfg": cfg, "ref": ref, "bytes": sorted(bs), "react": r, "err": o.err, "consumed": o.consumed,
                         "pair": pair, "outcome": o}
                nxt = None
                if r[0] == "accept":
                    entry["oblig"] = "must-accept"
                    entry["ext_kind"] = r[2]
                    entry["holds"] = ok
                    nxt = r[1]
                elif r[0] == "reject":
                    entry["oblig"] = "must-reject" if not ext else "rfc-reject-ext"
                    entry["holds"] = (not ok)
                elif r[0] == "depth":
                    entry["oblig"] = "depth"
                    entry["holds"] = (T.err_name.get(o.err) == "error_depth")
                elif r[0] in ("opaque", "may"):
                    entry["oblig"] = None
                    nxt = r[1]
                if r[0] == "accept" and r[2] == "X1":
                    # value-neutrality of comments: remember the configuration the comment started from and demand
                    # it back when the comment closes
                    if ref[0] not in ("C1", "CB", "CBS", "CL"):
                        origin[(o.next, nxt)] = cfg
                    elif nxt[0] not in ("C1", "CB", "CBS", "CL"):
                        src = origin.get(pair)
                        entry["comment_neutral"] = (src is None) or (o.next == src)
                        entry["comment_origin"] = src
                    else:
                        if pair in origin and ok:
                            origin.setdefault((o.next, nxt), origin[pair])
                if ref[0] == "T" and top_state in LITERAL_STATES:
                    # literal matching compares text (strncmp on data): acceptance is opaque to a class-level analysis
                    entry["oblig"] = None
                checks.append(entry)
                if ok and nxt is not None:
                    if o.consumed == 0 and not ended:
                        # the byte was not consumed (cannot happen without the document ending)
                        pass
                    if ended:
                        # document complete: both sides start over.  If the byte was not consumed it belongs to
                        # the next document; the reference's successor is then not meaningful either.
                        np = (T.canon(tokauto.initial_config()), rfcref.INITIAL)
                    else:
                        # opaque tokens: the reference is inside a token exactly while the tokener is
                        ns = T.state_name.get(o.next[1][o.next[0]][0], "?")
                        if r[0] == "opaque" and ns not in OPAQUE_STATES:
                            continue    # the tokener left the token on a token character: not followed
                        if r[0] == "may" and ns in OPAQUE_STATES:
                            continue    # spurious: only possible because literal comparison is opaque here
                        np = (o.next, nxt)
                    if np not in parent:
                        parent[np] = (pair, bs[0])
                        dq.append(np)
    return {"pairs": npairs, "checks": len(checks)}, checks, parent


def witness(parent, pair, last_byte=None):
    """a text prefix leading to `pair` (one representative byte per step)"""
    out = []
    while parent.get(pair) is not None:
        pair, b = parent[pair]
        out.append(b)
    out.reverse()
    if last_byte is not None:
        out.append(last_byte)
    return bytes(out)


def show(bs):
    return "".join(chr(b) if 32 <= b < 127 else "\\x%02x" % b for b in bs)
