"""SSA value-flow helpers shared by the rules: access paths, result fates, null tests."""
import re
from .cfg import cfg_of
from .ir import strip_casts, Val

_TRANSPARENT = {"bitcast", "sext", "zext", "trunc", "addrspacecast"}


# ---------------------------------------------------------------------------
# access paths


class Paths:
    """Canonical access paths for SSA values of one function.

    path(v) is a string such as  'p->bpos', 'tok->stack[tok->depth].state', 'call:malloc@3'.
    For a pointer produced by getelementptr the string denotes the *lvalue*; a load of it
    denotes the value stored there and has the same string.
    """

    def __init__(self, fn, prog=None):
        self.fn = fn
        self.prog = prog
        self.mod = fn.module
        self._memo = {}
        self._callnum = {}
        n = {}
        for i in fn.instrs():
            if i.op == "call":
                nm = i.callee or "indirect"
                n[nm] = n.get(nm, 0) + 1
                self._callnum[id(i)] = n[nm]

    def path(self, v, depth=0):
        v = strip_casts(v) if v.kind == "cexpr" else v
        if v.kind == "int":
            return str(v.v)
        if v.kind == "null":
            return "null"
        if v.kind == "global":
            return "@" + v.v
        if v.kind == "cexpr":
            if v.v == "getelementptr":
                base = self.path(v.args[0], depth + 1)
                return base + "".join("[%s]" % self.path(a, depth + 1) for a in v.args[2:])
            if v.v in ("inttoptr", "ptrtoint"):
                return self.path(v.args[0], depth + 1)
            return "cexpr:" + v.v
        if v.kind != "reg":
            return v.kind
        if v.v in self._memo:
            return self._memo[v.v]
        if depth > 40:
            return "%" + v.v
        self._memo[v.v] = "%" + v.v   # cycle guard
        r = self._path_reg(v, depth)
        self._memo[v.v] = r
        return r

    def _path_reg(self, v, depth):
        fn = self.fn
        d = fn.defs.get(v.v)
        if d is None:
            # parameter
            return v.v
        op = d.op
        if op in _TRANSPARENT or op in ("inttoptr", "ptrtoint"):
            return self.path(d.ops[0], depth + 1)
        if op == "load":
            return self.path(d.ops[0], depth + 1)
        if op == "getelementptr":
            base = d.ops[0]
            bp = self.path(base, depth + 1)
            srcty = d.x["srcty"]
            idx = d.ops[1:]
            s = bp
            t = srcty
            first = idx[0]
            is_lvalue = self._is_lvalue(base)
            if not (first.kind == "int" and first.v == 0):
                s = "%s[%s]" % (s, self.path(first, depth + 1))
                is_lvalue = True
            from .ir import array_elem, split_top
            for k in idx[1:]:
                ae = array_elem(t)
                if ae:
                    s = "%s[%s]" % (s, self.path(k, depth + 1))
                    t = ae[1]
                    is_lvalue = True
                elif t.startswith("%") and k.kind == "int":
                    names = self.mod.struct_fields(t)
                    fields = self.mod.structs.get(t)
                    nm = names[k.v] if names and k.v < len(names) else "f%d" % k.v
                    s = "%s%s%s" % (s, "." if is_lvalue else "->", nm)
                    is_lvalue = True
                    t = fields[k.v] if fields else "?"
                else:
                    s = "%s[%s]" % (s, self.path(k, depth + 1))
                    is_lvalue = True
            return s
        if op == "call":
            nm = d.callee
            if nm and self.prog is not None:
                g = self.prog.resolve(nm, self.mod)
                if g is not None:
                    k = identity_param(g)
                    if k is not None and k < len(d.ops):
                        return self.path(d.ops[k], depth + 1)
                    acc = accessor_summary(g, self.prog)
                    if acc is not None:
                        k, suffix = acc
                        if k < len(d.ops):
                            return self.path(d.ops[k], depth + 1) + suffix
            return "call:%s#%d" % (nm or "indirect", self._callnum.get(id(d), 0))
        if op == "alloca":
            return v.v      # the local itself (an lvalue, like a getelementptr result)
        if op == "phi":
            ps = {self.path(o, depth + 1) for o in d.ops if not (o.kind == "reg" and o.v == v.v)}
            if len(ps) == 1:
                return ps.pop()
            return "phi:" + v.v
        if op in ("add", "sub", "mul", "and", "or", "xor", "shl", "lshr", "ashr", "urem", "srem", "udiv", "sdiv"):
            sym = {"add": "+", "sub": "-", "mul": "*", "and": "&", "or": "|", "xor": "^", "shl": "<<",
                   "lshr": ">>", "ashr": ">>", "urem": "%", "srem": "%", "udiv": "/", "sdiv": "/"}[op]
            return "(%s%s%s)" % (self.path(d.ops[0], depth + 1), sym, self.path(d.ops[1], depth + 1))
        if op == "select":
            return "sel:" + v.v
        return "%" + v.v

    def _is_lvalue(self, base):
        """does the pointer value `base` itself come from a gep (so a further field is '.')?"""
        base = strip_casts(base) if base.kind == "cexpr" else base
        if base.kind != "reg":
            return False
        d = self.fn.defs.get(base.v)
        while d is not None and d.op in ("bitcast",):
            b = d.ops[0]
            if b.kind != "reg":
                return False
            d = self.fn.defs.get(b.v)
        return d is not None and d.op in ("getelementptr", "alloca")


_identity_cache = {}


def identity_param(g):
    """index k if function g just returns its k-th parameter (possibly bit-cast), else None"""
    key = id(g)
    if key in _identity_cache:
        return _identity_cache[key]
    r = None
    if len(g.blocks) == 1:
        instrs = g.entry.instrs
        if all(i.op in ("bitcast", "ret") for i in instrs):
            ret = instrs[-1]
            if ret.ops:
                v = ret.ops[0]
                while v.kind == "reg" and v.v in g.defs and g.defs[v.v].op == "bitcast":
                    v = g.defs[v.v].ops[0]
                if v.kind == "reg":
                    r = g.param_index(v.v)
    _identity_cache[key] = r
    return r


_accessor_cache = {}


def accessor_summary(g, prog):
    """(k, suffix) if g is a single-block pure function returning a load/address of a path rooted at
    parameter k, e.g. lh_entry_v(e) -> (0, '->v')."""
    key = id(g)
    if key in _accessor_cache:
        return _accessor_cache[key]
    r = None
    if len(g.blocks) == 1 and all(i.op in ("bitcast", "ret", "getelementptr", "load", "call", "ptrtoint", "inttoptr") for i in g.entry.instrs):
        ok = True
        for i in g.entry.instrs:
            if i.op == "call":
                h = prog.resolve(i.callee, g.module) if i.callee else None
                if h is None or (identity_param(h) is None):
                    ok = False
        if ok:
            ret = g.entry.instrs[-1]
            if ret.ops and ret.ops[0].kind == "reg":
                p = Paths(g, prog).path(ret.ops[0])
                for k, (_, nm) in enumerate(g.params):
                    if nm and p.startswith(nm) and (len(p) == len(nm) or p[len(nm)] in "-.["):
                        r = (k, p[len(nm):])
                        break
    _accessor_cache[key] = r
    return r


# ---------------------------------------------------------------------------
# fates of a value


def derived_values(fn, regname, through_arith=False):
    """registers that carry the same value as regname (through casts, phi, select), plus the
    instructions that consume them. returns (set of regs, list of (user instr, reg))"""
    cfg = cfg_of(fn)
    seen = {regname}
    work = [regname]
    consumers = []
    while work:
        r = work.pop()
        for u in cfg.users(r):
            if u.op in _TRANSPARENT or u.op == "phi" or (u.op == "select" and any(o.kind == "reg" and o.v == r for o in u.ops[1:])):
                if u.res and u.res not in seen:
                    seen.add(u.res)
                    work.append(u.res)
                continue
            if through_arith and u.op in ("add", "sub", "or", "and", "xor", "mul"):
                if u.res and u.res not in seen:
                    seen.add(u.res)
                    work.append(u.res)
                consumers.append((u, r))
                continue
            consumers.append((u, r))
    return seen, consumers


def result_fates(fn, instr):
    """How is the result of `instr` used?  returns set of
       'test' (compared, comparison controls a branch/select/return),
       'returned', 'stored', 'passed' (argument of another call), 'arith', and 'none'."""
    if instr.res is None:
        return {"none"}
    cfg = cfg_of(fn)
    regs, cons = derived_values(fn, instr.res)
    fates = set()
    for u, r in cons:
        if u.op in ("icmp", "fcmp"):
            # does the comparison reach a branch?
            r2, c2 = derived_values(fn, u.res)
            hit = False
            for uu, _ in c2:
                if uu.op in ("br", "select", "ret", "switch", "xor", "and", "or", "store", "call"):
                    hit = True
            fates.add("test" if hit else "arith")
        elif u.op == "switch":
            fates.add("test")
        elif u.op == "br":
            fates.add("test")
        elif u.op == "ret":
            fates.add("returned")
        elif u.op == "store":
            if u.ops[0].kind == "reg" and u.ops[0].v == r:
                fates.add("stored")
            else:
                fates.add("deref")
        elif u.op == "call":
            fates.add("passed")
        elif u.op in ("load", "getelementptr"):
            fates.add("deref")
        else:
            fates.add("arith")
    if not fates:
        fates.add("none")
    return fates


# ---------------------------------------------------------------------------
# null tests


def null_tests(fn, regs):
    """conditional branches that test one of `regs` against null/0.
    returns list of (br instr, nonnull_block, null_block)"""
    cfg = cfg_of(fn)
    out = []
    for r in regs:
        for u in cfg.users(r):
            if u.op != "icmp" or u.x["pred"] not in ("eq", "ne"):
                continue
            other = u.ops[1] if (u.ops[0].kind == "reg" and u.ops[0].v == r) else u.ops[0]
            if not (other.kind == "null" or (other.kind == "int" and other.v == 0)):
                continue
            # follow through xor/zext? clang -O0 emits br directly on the icmp (or via phi for &&/||)
            for b in cfg.users(u.res):
                if b.op == "br" and len(b.x["targets"]) == 2:
                    t, f = b.x["targets"]
                    tb, fb = fn.blocks[t], fn.blocks[f]
                    if u.x["pred"] == "ne":
                        out.append((b, tb, fb))
                    else:
                        out.append((b, fb, tb))
    return out


def guarded_nonnull(fn, regs, use_instr):
    """is use_instr reachable only through the non-null edge of a null test of one of regs?"""
    cfg = cfg_of(fn)
    for br, nn, nl in null_tests(fn, regs):
        if nn is nl:
            continue
        if cfg.edge_dominates(br.block, nn, use_instr.block) and not (br.block is use_instr.block):
            return True
        # same-block case cannot happen: br is a terminator
    return False


# ---------------------------------------------------------------------------
# dominating branch conditions


def dominating_conditions(fn, block, pruned=None):
    """conditions that hold whenever `block` executes: list of (cmp instr, truth) for every conditional
    branch one of whose edges dominates the block (every entry->block path takes that edge).
    switch edges are returned as ('switch', instr, set-of-case-values or ('default', all cases))."""
    cfg = cfg_of(fn)
    out = []
    for b in fn.blocks.values():
        t = b.term
        if t.op == "br" and len(t.x["targets"]) == 2 and t.ops:
            tn, en = t.x["targets"]
            if tn == en:
                continue
            c = t.ops[0]
            if c.kind != "reg":
                continue
            for edge, truth in ((tn, True), (en, False)):
                if cfg.edge_dominates(b, fn.blocks[edge], block):
                    for cmp_, tr in _flatten_cond(fn, c, truth):
                        out.append((cmp_, tr))
        elif t.op == "switch":
            for tgt in t.x["targets"]:
                if cfg.edge_dominates(b, fn.blocks[tgt], block):
                    vals = [v for v, l in t.x["cases"] if l == tgt]
                    if tgt == t.x["default"]:
                        out.append((t, ("default", [v for v, _ in t.x["cases"]], vals)))
                    else:
                        out.append((t, ("cases", vals)))
    return out


def _flatten_cond(fn, c, truth):
    d = fn.defs.get(c.v) if c.kind == "reg" else None
    if d is None:
        return []
    if d.op == "icmp" and d.x["pred"] in ("eq", "ne"):
        # a materialised boolean tested against 0 / 1: `(x < 0) != 0` is `x < 0`
        for x, y in ((d.ops[0], d.ops[1]), (d.ops[1], d.ops[0])):
            if y.kind == "int" and y.v in (0, 1) and x.kind == "reg":
                xd = fn.defs.get(x.v)
                hops = 0
                while xd is not None and xd.op in ("zext", "sext", "trunc") and xd.ops[0].kind == "reg" and hops < 4:
                    x = xd.ops[0]
                    xd = fn.defs.get(x.v)
                    hops += 1
                if hops > 0 and xd is not None and xd.op in ("icmp", "fcmp", "xor"):
                    same = (d.x["pred"] == "ne") == (y.v == 0)
                    return _flatten_cond(fn, x, truth if same else not truth)
    if d.op in ("icmp", "fcmp"):
        return [(d, truth)]
    if d.op == "xor" and d.ops[1].kind == "int" and d.ops[1].v in (1, -1):
        return _flatten_cond(fn, d.ops[0], not truth)
    if d.op in ("trunc", "zext"):
        return _flatten_cond(fn, d.ops[0], truth)
    return []


def local_copies(fn, P, reg):
    """registers that hold the same value as `reg` after a round trip through local memory: the value is stored into a local
    slot (or a field of a local struct) that receives no other value, and loaded back"""
    allocas = {i.res for i in fn.instrs() if i.op == "alloca"}

    def rooted_local(addr):
        v = addr
        hops = 0
        while v.kind == "reg" and hops < 8:
            if v.v in allocas:
                return True
            d = fn.defs.get(v.v)
            if d is None or d.op not in ("getelementptr", "bitcast"):
                return False
            v = d.ops[0]
            hops += 1
        return False
    regs = {reg}
    stores = [i for i in fn.instrs() if i.op == "store" and rooted_local(i.ops[1])]
    loads = [i for i in fn.instrs() if i.op == "load" and rooted_local(i.ops[0])]
    bypath = {}
    for s_ in stores:
        bypath.setdefault(P.path(s_.ops[1]), []).append(s_)
    changed = True
    while changed:
        changed = False
        # casts
        for i in fn.instrs():
            if i.op == "bitcast" and i.res not in regs and i.ops[0].kind == "reg" and i.ops[0].v in regs:
                regs.add(i.res)
                changed = True
        for path, sts in bypath.items():
            if all(x.ops[0].kind == "reg" and x.ops[0].v in regs for x in sts):
                for ld in loads:
                    if ld.res not in regs and P.path(ld.ops[0]) == path:
                        regs.add(ld.res)
                        changed = True
    return regs
